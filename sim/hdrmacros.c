/* The static-initialiser macros of the public headers (C designated initialisers: compiled as C), wrapped in functions so that the
 * harnesses can set their objects up the way an application that uses these macros does. */
#include <stddef.h>
#include <ufw/allocator.h>
#include <ufw/byte-buffer.h>
#include <ufw/endpoints.h>
#include <ufw/register-protocol.h>

ByteBuffer hm_byte_buffer_init(void *d, size_t size, size_t used, size_t offset) { ByteBuffer b = BYTE_BUFFER_INIT(d, size, used, offset); return b; }
ByteBuffer hm_byte_buffer(void *d, size_t size) { ByteBuffer b = BYTE_BUFFER(d, size); return b; }
ByteBuffer hm_byte_buffer_empty(void *d, size_t size) { ByteBuffer b = BYTE_BUFFER_EMPTY(d, size); return b; }
ByteChunks hm_byte_chunks3(ByteBuffer (*arr)[3]) { ByteChunks c = BYTE_CHUNKS(*arr); return c; }

Source hm_octet_source(ByteSource cb, void *driver) { Source s = OCTET_SOURCE_INIT(cb, driver); return s; }
Source hm_chunk_source(ChunkSource cb, void *driver) { Source s = CHUNK_SOURCE_INIT(cb, driver); return s; }
Sink hm_octet_sink(ByteSink cb, void *driver) { Sink s = OCTET_SINK_INIT(cb, driver); return s; }
Sink hm_chunk_sink(ChunkSink cb, void *driver) { Sink s = CHUNK_SINK_INIT(cb, driver); return s; }

void hm_regp_new_instance(RegP *p) { RegP n = RP_NEW_INSTANCE; *p = n; }
RPBlockAccess hm_block_access_init(void) { RPBlockAccess a = RPB_BLOCK_ACCESS_INIT; return a; }

BlockAllocator hm_generic_blockalloc(void *driver, GenericAlloc a, GenericFree f, size_t bs) { BlockAllocator b = MAKE_GENERIC_BLOCKALLOC(driver, a, f, bs); return b; }
BlockAllocator hm_slab_blockalloc(void *driver, SlabAlloc a, GenericFree f, size_t bs) { BlockAllocator b = MAKE_SLAB_BLOCKALLOC(driver, a, f, bs); return b; }
BlockAllocator hm_stdhead_blockalloc(size_t bs) { BlockAllocator b = MAKE_STDHEAD_BLOCKALLOC(bs); return b; }
