// regpsim - register protocol: two nodes, two simulated wires, scripted
// allocator and memory backend (properties C06, C07, C08, C09)
#include "driver.hpp"
#include "regpref.hpp"
#include "seams.hpp"

#include <map>
#include <sanitizer/asan_interface.h>

extern "C" {
#include <ufw/register-protocol.h>
}

extern "C" void hm_regp_new_instance(RegP *p);   // RegP p = RP_NEW_INSTANCE; (sim/hdrmacros.c)
extern "C" RPBlockAccess hm_block_access_init(void);

namespace {
using namespace rpref;
static bool g_free_via_block = false;   // frames are released with the allocator header's block_free() instead of regp_free() (the same release, spelled by the application)
static bool g_macro_init = false;   // instances, allocators and endpoints come from the headers' static initialiser macros

// ------------------------------------------------------------------ wires
struct Wire { Bytes data; size_t rpos = 0; };
static size_t g_lend = 0;   // window of the getbuffer extension the channel sources implement (0 = plain sources)
static void (*g_src_intruder)(Ctx *) = nullptr; static int64_t g_src_intrude_at = -1, g_src_intrude_arg = 0; static uint64_t g_src_calls = 0;
static inline void src_seam(Ctx *c) { if (g_src_intruder && (int64_t)g_src_calls++ == g_src_intrude_at) { void (*f)(Ctx *) = g_src_intruder; g_src_intruder = nullptr; f(c); } }
struct WireSrc {
    Ctx *c = nullptr; Wire *w = nullptr; bool octet = false;
    size_t lend_win = 0; std::unique_ptr<GuardedBlock> lend_blk;   // a source may lend its own receive window: then the plumbing moves whole chunks
    static ByteBuffer lend_cb(Source *s) { WireSrc *me = (WireSrc *)s->driver; ByteBuffer b; b.data = me->lend_blk->p; b.size = me->lend_win; b.used = me->lend_win; b.offset = 0; return b; }
    Script frag;                        // k >= 1: fragmentation of chunk reads
    int64_t err_pos = -1; int err_code = 0; bool err_fired = false;
    uint64_t calls = 0;
    ssize_t chunk(void *buf, size_t n) {
        c->step_budget(); ++calls;
        src_seam(c);   // a second instance may receive and serve a frame of its own while this one waits in its source
        ssize_t rv;
        if (err_pos >= 0 && (int64_t)w->rpos >= err_pos) { err_pos = -1; err_fired = true; rv = -err_code; c->faults_fired++; COUNT("fault.channel_error_mid_stream"); }
        else if (w->rpos >= w->data.size()) rv = -ENODATA;
        else {
            size_t k = n; int64_t s;
            if (frag.next(s) && s >= 1 && (size_t)s < k) { k = (size_t)s; COUNT("fault.src_partial_transfer"); c->faults_fired++; }
            if (k > w->data.size() - w->rpos) k = w->data.size() - w->rpos;
            memcpy(buf, w->data.data() + w->rpos, k); w->rpos += k; rv = (ssize_t)k;
        }
        c->ev(EV_SRC_CALL, n, (uint64_t)rv, w->rpos);
        return rv;
    }
    static ssize_t chunk_cb(void *d, void *b, size_t n) { return ((WireSrc *)d)->chunk(b, n); }
    static int octet_cb(void *d, void *b) { return (int)((WireSrc *)d)->chunk(b, 1); }
    Source make() {
        Source s;
        if (g_macro_init) s = octet ? hm_octet_source(octet_cb, this) : hm_chunk_source(chunk_cb, this);
        else if (octet) octet_source_init(&s, octet_cb, this); else chunk_source_init(&s, chunk_cb, this);
        if (lend_win) { if (!lend_blk) lend_blk.reset(new GuardedBlock(lend_win)); s.ext.getbuffer = lend_cb; }
        return s;
    }
};
// a second task scheduled at a seam point: when a channel sink is entered for the (g_snk_intrude_at)-th time in the run, another protocol instance
// emits a request of its own on a wire of its own first (see second_instance_emits below)
static void (*g_snk_intruder)(Ctx *) = nullptr; static int64_t g_snk_intrude_at = -1, g_snk_intrude_arg = 0; static uint64_t g_snk_calls = 0;
struct WireSnk {
    Ctx *c = nullptr; Wire *w = nullptr; bool octet = false; uint64_t calls = 0;
    int64_t err_at = -1; int err_code = EIO; uint64_t err_fired = 0;   // the channel fails once, at this sink call (a reply cannot be sent)
    ssize_t chunk(const void *buf, size_t n) { c->step_budget(); ++calls;
        if (err_at >= 0 && (int64_t)calls - 1 >= err_at) { err_at = -1; ++err_fired; c->faults_fired++; COUNT("fault.reply_sink_error"); c->ev(EV_SNK_CALL, n, (uint64_t)(int64_t)-err_code, w->data.size()); return -err_code; }
        if (g_snk_intruder && (int64_t)g_snk_calls++ == g_snk_intrude_at) { void (*f)(Ctx *) = g_snk_intruder; g_snk_intruder = nullptr; f(c); } w->data.insert(w->data.end(), (const uint8_t *)buf, (const uint8_t *)buf + n); c->ev(EV_SNK_CALL, n, n, w->data.size()); return (ssize_t)n; }
    static ssize_t chunk_cb(void *d, const void *b, size_t n) { return ((WireSnk *)d)->chunk(b, n); }
    static int octet_cb(void *d, unsigned char ch) { return (int)((WireSnk *)d)->chunk(&ch, 1); }
    Sink make() { Sink s; if (g_macro_init) s = octet ? hm_octet_sink(octet_cb, this) : hm_chunk_sink(chunk_cb, this); else if (octet) octet_sink_init(&s, octet_cb, this); else chunk_sink_init(&s, chunk_cb, this); return s; }
};

// ------------------------------------------------------------------ allocator ledger
// the C library's malloc underneath the library's stock heap allocator fails on demand (-Wl,--wrap=malloc)
extern "C" void *__real_malloc(size_t); extern "C" void __real_free(void *);
static bool g_fail_next_malloc = false;
// an instance that keeps the library's own rp_default_allocator object: its blocks come straight from the C library's heap, so the ledger
// watches malloc() / free() themselves (-Wl,--wrap=malloc,--wrap=free); nothing else in this process calls the wrapped symbols while it does
struct Ledger; static Ledger *g_heap_led = nullptr; static bool g_defalloc_next = false;
static void *heap_ledger_alloc(size_t n); static void heap_ledger_free(void *m);
extern "C" void *__wrap_malloc(size_t n) { if (g_fail_next_malloc) { g_fail_next_malloc = false; return nullptr; } if (g_heap_led) return heap_ledger_alloc(n); return __real_malloc(n); }
extern "C" void __wrap_free(void *m) { if (g_heap_led) { heap_ledger_free(m); return; } __real_free(m); }
static bool g_stock_heap = false;   // blocks come from ufw_malloc() / go back through ufw_mfree() (the stock heap allocator's functions) instead of straight from malloc
static int g_block_fill = 0xbe, g_block_scrub = -1;   // what fresh blocks contain (pool in erased RAM: 0xff, zeroed pool: 0x00, ...) and whether the pool scrubs returned blocks
struct Ledger {
    Ctx *c = nullptr; size_t bs = 128; bool slab = false;
    Script fail;                                  // one entry per allocation: non-zero = fail
    std::map<uintptr_t, size_t> live;             // block -> ordinal
    uint64_t allocs = 0, frees = 0, failed = 0, unknown_free = 0;
    bool recycle = false;                         // pool allocator: freed blocks are handed out again, newest first, with their old content
    std::vector<void *> pool;
    int do_alloc(void **m) {
        c->step_budget();
        int64_t s = 0;
        if (g_stock_heap) {
            // the heap runs dry underneath ufw_malloc(): what comes back is whatever the library's function makes of it
            const bool dry = fail.next(s) && s != 0;
            if (dry) { g_fail_next_malloc = true; ++failed; c->faults_fired++; COUNT("fault.allocation_failure"); COUNT("probe.malloc_failed_underneath_ufw_malloc"); }
            void *q = nullptr; int rc = ufw_malloc(nullptr, &q, bs); g_fail_next_malloc = false;
            c->ev(EV_ALLOC, 2, (uint64_t)(int64_t)rc, allocs);
            if (rc < 0) { *m = nullptr; return rc; }
            if (q) { memset(q, g_block_fill, bs); live[(uintptr_t)q] = allocs; }
            ++allocs; *m = q; return rc;
        }
        if (fail.next(s) && s != 0) { *m = nullptr; ++failed; c->faults_fired++; COUNT("fault.allocation_failure"); c->ev(EV_ALLOC, 0, 0, allocs); return -ENOMEM; }
        void *p;
        if (recycle && !pool.empty()) { p = pool.back(); pool.pop_back(); ASAN_UNPOISON_MEMORY_REGION(p, bs); COUNT("probe.block_recycled_with_stale_content"); }
        else { p = __real_malloc(bs); memset(p, g_block_fill, bs); }
        live[(uintptr_t)p] = allocs++;
        *m = p; c->ev(EV_ALLOC, 1, bs, allocs);
        return 0;
    }
    void do_free(void *m) {
        auto it = live.find((uintptr_t)m);
        c->ev(EV_FREE, it != live.end(), 0, frees);
        if (it == live.end()) { ++unknown_free; return; }   // never passed to free(): a double free would otherwise abort before we can report it
        live.erase(it); ++frees;
        if (g_stock_heap) { ufw_mfree(nullptr, m); return; }
        if (recycle) { if (g_block_scrub >= 0) memset(m, g_block_scrub, bs); ASAN_POISON_MEMORY_REGION(m, bs); pool.push_back(m); }   // use-after-free stays visible to ASan while the block waits in the pool
        else __real_free(m);
    }
    // the heap itself as seen underneath rp_default_allocator (ufw_malloc / ufw_mfree call malloc / free)
    void *heap_alloc(size_t n) {
        c->step_budget();
        int64_t s = 0;
        if (fail.next(s) && s != 0) { ++failed; c->faults_fired++; COUNT("fault.allocation_failure"); COUNT("probe.malloc_failed_underneath_default_allocator"); c->ev(EV_ALLOC, 3, 0, allocs); return nullptr; }
        if (n != bs) c->fail("heap.blocksize", "the default allocator asked the heap for %zu octets, its block size is %zu", n, bs);
        void *q = __real_malloc(n < bs ? bs : n); memset(q, g_block_fill, n < bs ? bs : n);
        live[(uintptr_t)q] = allocs++; c->ev(EV_ALLOC, 4, n, allocs);
        return q;
    }
    void heap_free(void *m) {
        auto it = live.find((uintptr_t)m);
        c->ev(EV_FREE, it != live.end(), 1, frees);
        if (it == live.end()) { ++unknown_free; return; }
        live.erase(it); ++frees; __real_free(m);
    }
    // room behind a pointer inside a live block, 0 if it is not inside one
    size_t room(const void *p) const { uintptr_t x = (uintptr_t)p; for (auto &kv : live) if (x >= kv.first && x <= kv.first + bs) return kv.first + bs - x; return 0; }
    void release_all() { for (auto &kv : live) __real_free((void *)kv.first); live.clear(); for (void *p : pool) { ASAN_UNPOISON_MEMORY_REGION(p, bs); __real_free(p); } pool.clear(); }
    static int generic_cb(void *d, void **m, size_t) { return ((Ledger *)d)->do_alloc(m); }
    static int slab_cb(void *d, void **m) { return ((Ledger *)d)->do_alloc(m); }
    static void free_cb(void *d, void *m) { ((Ledger *)d)->do_free(m); }
    BlockAllocator make() {
        if (g_macro_init) return slab ? hm_slab_blockalloc(this, slab_cb, free_cb, bs) : hm_generic_blockalloc(this, generic_cb, free_cb, bs);   // MAKE_SLAB_BLOCKALLOC / MAKE_GENERIC_BLOCKALLOC
        BlockAllocator a; memset(&a, 0, sizeof a);
        a.type = slab ? UFW_ALLOC_SLAB : UFW_ALLOC_GENERIC; a.blocksize = bs; a.driver = this;
        if (slab) a.alloc.slab = slab_cb; else a.alloc.generic = generic_cb;
        a.free = free_cb; return a;
    }
};

static void *heap_ledger_alloc(size_t n) { return g_heap_led->heap_alloc(n); }
static void heap_ledger_free(void *m) { g_heap_led->heap_free(m); }

// ------------------------------------------------------------------ scripted-verdict memory backend
struct BeCall { bool write; uint32_t addr; size_t n; Bytes data; size_t room; };
struct Backend {
    Ctx *c = nullptr; Ledger *led = nullptr; int ws = 2;
    std::vector<BeCall> log;
    std::vector<std::pair<int, uint32_t>> verdicts; size_t vpos = 0;
    int reg_code = -1;          // >= 0: the verdict is a register-table access result, mapped by the library's regaccess2blockaccess()
    uint64_t salt = 0;
    size_t avail_payload = 0;   // octets of payload actually present in the frame being processed (set by the harness)
    RPBlockAccess access(bool write, uint32_t addr, size_t n, void *rbuf, const void *wbuf) {
        c->step_budget();
        BeCall call; call.write = write; call.addr = addr; call.n = n;
        const void *p = write ? wbuf : rbuf;
        call.room = led->room(p);
        size_t want = n * (size_t)ws;
        RPBlockAccess rv; rv.status = RP_RESP_ACK; rv.address = 0;
        if (vpos < verdicts.size()) {
            rv.status = (RPResponse)verdicts[vpos].first; rv.address = verdicts[vpos].second; ++vpos;
            if (reg_code >= 0) { RegisterAccess ra; ra.code = (RegisterAccessCode)reg_code; ra.address = rv.address; rv = regaccess2blockaccess(ra); }
        }
        if (rv.status != RP_RESP_ACK) { c->faults_fired++; COUNT("fault.backend_error_verdict"); }
        if (write) { size_t k = want; if (k > call.room) k = call.room; if (k > avail_payload) k = avail_payload; call.data.assign((const uint8_t *)wbuf, (const uint8_t *)wbuf + k); }
        else if (rv.status == RP_RESP_ACK) {
            size_t k = want; if (k > call.room) k = call.room;
            call.data.resize(k);
            for (size_t i = 0; i < k; ++i) call.data[i] = (uint8_t)(stream_octet(salt * 8191 + addr * 2 + i) ^ 0x6d);
            if (k) memcpy(rbuf, call.data.data(), k);
        }
        c->ev(EV_BACKEND, write, addr, n);
        log.push_back(call);
        return rv;
    }
};
static Backend *g_be = nullptr;
static RPBlockAccess be_r16(uint32_t a, size_t n, uint16_t *b) { return g_be->access(false, a, n, b, nullptr); }
static RPBlockAccess be_w16(uint32_t a, size_t n, const uint16_t *b) { return g_be->access(true, a, n, nullptr, b); }
static RPBlockAccess be_r8(uint32_t a, size_t n, uint8_t *b) { return g_be->access(false, a, n, b, nullptr); }
static RPBlockAccess be_w8(uint32_t a, size_t n, const uint8_t *b) { return g_be->access(true, a, n, nullptr, b); }

// ------------------------------------------------------------------ one protocol node
struct Node {
    Ctx &c; RegP p; Wire *in, *out; WireSrc src; WireSnk snk; Ledger led; BlockAllocator ba; Backend be;
    bool serial; int mt;
    RPMaybeFrame mf;   // one object reused for every iteration of the serve loop, as an application would
    bool defalloc = false;   // no allocator is ever attached: the instance keeps &rp_default_allocator from regp_init() / RP_NEW_INSTANCE and the ledger watches the heap
    bool nomem = false;   // no memory is ever attached: the instance keeps what regp_init() / RP_NEW_INSTANCE give it (16-bit semantics, every access unmapped)
    Node(Ctx &ctx, Wire *i, Wire *o, bool ser, int memtype, size_t block, bool slab, bool src_octet, bool snk_octet, bool no_memory = false) : c(ctx), in(i), out(o), serial(ser), mt(memtype), nomem(no_memory && memtype == 16) {
        src.c = &ctx; src.w = i; src.octet = src_octet; snk.c = &ctx; snk.w = o; snk.octet = snk_octet;
        src.lend_win = g_lend; if (g_lend) COUNT("probe.channel_source_lends_its_window");
        defalloc = g_defalloc_next; g_defalloc_next = false;
        if (defalloc) { block = (size_t)RP_DEFAULT_BUFFER_SIZE; slab = false; g_heap_led = &led; COUNT("probe.instance_keeps_rp_default_allocator"); }
        led.c = &ctx; led.bs = block; led.slab = slab; ba = led.make();
        be.c = &ctx; be.led = &led; be.ws = memtype == 16 ? 2 : 1;
        memset(&mf, 0, sizeof mf);
        if (g_macro_init) { memset(&p, 0xa5, sizeof p); hm_regp_new_instance(&p); COUNT("probe.instance_from_RP_NEW_INSTANCE"); } else regp_init(&p);
        reconfigure(0);
    }
    // (re-)apply the effective configuration, optionally after a history of other settings (instances get re-configured;
    // only the last call of each kind counts)
    void reconfigure(unsigned history) {
        if ((history & 1) && !nomem) regp_use_memory8(&p, be_r8, be_w8);
        if ((history & 2) && !nomem) regp_use_memory16(&p, be_r16, be_w16);
        if (history & 4) regp_use_channel(&p, serial ? RP_EP_TCP : RP_EP_SERIAL, source_empty, sink_null);
        if (history & 8) regp_use_allocator(&p, &rp_default_allocator);
        if (nomem) COUNT("probe.instance_without_memory_attached"); else if (mt == 16) regp_use_memory16(&p, be_r16, be_w16); else regp_use_memory8(&p, be_r8, be_w8);
        regp_use_channel(&p, serial ? RP_EP_SERIAL : RP_EP_TCP, src.make(), snk.make());
        ba.driver = &led;
        if (!defalloc) regp_use_allocator(&p, &ba);
        else if (history & 8) { regp_use_allocator(&p, &ba); regp_use_allocator(&p, &rp_default_allocator); }   // away and back
    }
    ~Node() { if (g_heap_led == &led) g_heap_led = nullptr; led.release_all(); }
    size_t bufsize() const { return led.bs - sizeof(RPFrame); }
};

struct Served {
    bool recv_returned = true, proc_returned = true; int rc_recv = 0, rc_proc = 0;
    int error_id = 0; bool have_frame = false;
    Frame got;                   // fields as reported by regp_recv
    size_t be_calls = 0; std::vector<BeCall> calls;
    Bytes reply_wire; std::vector<Bytes> replies; bool reply_framing_ok = true;
    size_t live_after = 0; uint64_t unknown_free = 0;
    size_t allocs = 0;
    bool snk_failed = false;     // the channel sink failed during this turn
};

static Served serve(Node &N, size_t payload_avail) {
    Served S; Ctx &c = N.c;
    g_be = &N.be; N.be.avail_payload = payload_avail;
    size_t be0 = N.be.log.size(), out0 = N.out->data.size();
    uint64_t a0 = N.led.allocs, uf0 = N.led.unknown_free;
    const uint64_t snk_failed_before = N.snk.err_fired;
    RPMaybeFrame &mf = N.mf;   // deliberately not cleared: whatever the previous iteration left behind is still in there
    const uint64_t budget = 16 * (N.in->data.size() - N.in->rpos) + 8 * N.led.bs + 512;
    S.recv_returned = WITH_BUDGET(c, budget, S.rc_recv = regp_recv(&N.p, &mf));
    c.ev(EV_API, 1, (uint64_t)(int64_t)S.rc_recv, (uint64_t)mf.error.id);
    c.execs++;
    if (S.recv_returned && S.rc_recv >= 0) {
        S.error_id = mf.error.id; S.have_frame = mf.frame != nullptr;
        if (mf.frame && (mf.error.id == 0 || mf.error.id == EPROTO || mf.error.id == EFAULT)) {
            const RPFrame *f = mf.frame;
            S.got.version = f->header.version; S.got.type = (int)f->header.type; S.got.options = f->header.options; S.got.meta = (int)f->header.meta.raw;
            S.got.seq = f->header.sequence; S.got.addr = f->header.address; S.got.bsize = f->header.blocksize; S.got.hdcrc = f->header.hdcrc; S.got.plcrc = f->header.plcrc;
            size_t room = N.led.room(f->payload.data);
            if (mf.error.id == 0 && f->payload.data && f->payload.size <= room) S.got.payload.assign((const uint8_t *)f->payload.data, (const uint8_t *)f->payload.data + f->payload.size);
        }
        S.proc_returned = WITH_BUDGET(c, budget, S.rc_proc = regp_process(&N.p, &mf));
        c.ev(EV_API, 2, (uint64_t)(int64_t)S.rc_proc, 0);
        if (S.proc_returned) { if (g_free_via_block && mf.frame) { block_free(N.p.alloc, mf.frame); COUNT("probe.frame_released_through_block_free"); } else regp_free(&N.p, mf.frame); }
    } else if (S.recv_returned) {
        // reception failed. The documented loop goes on after its error handling, and regp_process() promises to
        // ignore such a result; the receiver released its block itself, so this must neither execute nor free anything.
        int rcp = 0;
        S.proc_returned = WITH_BUDGET(c, budget, rcp = regp_process(&N.p, &mf));
        c.ev(EV_API, 3, (uint64_t)(int64_t)rcp, 0);
        if (S.proc_returned) regp_free(&N.p, mf.frame);
    }
    S.calls.assign(N.be.log.begin() + (long)be0, N.be.log.end()); S.be_calls = S.calls.size();
    S.snk_failed = N.snk.err_fired != snk_failed_before;
    S.reply_wire.assign(N.out->data.begin() + (long)out0, N.out->data.end());
    S.reply_framing_ok = deframe(N.serial, S.reply_wire, S.replies);
    S.live_after = N.led.live.size(); S.unknown_free = N.led.unknown_free - uf0; S.allocs = (size_t)(N.led.allocs - a0);
    return S;
}

// Another instance of the protocol lived in this process before the scenario starts (plan field "prelude": [transport, kind]): on a line of its
// own it received line noise - a broken SLIP escape, half a frame, a length prefix without its payload, a frame that is too long - and answered
// what it answered. Nothing of that may be felt by the instances of the scenario: they share no object with it.
static void earlier_instance(Ctx &c, const Json &plan) {
    if (!plan.has("prelude")) return;
    const Json &pj = plan.get("prelude");
    const bool serial = (pj.ati(0, 0) & 1) != 0; const int kind = (int)(((pj.ati(1, 0) % 7) + 7) % 7);
    Wire in, out;
    Node X(c, &in, &out, serial, 16, sizeof(RPFrame) + 48, false, (pj.ati(0, 0) & 2) != 0, false);
    Frame f; f.type = T_WREQ; f.options = (serial ? OPT_HDCRC | OPT_PLCRC : 0) | OPT_WS16; f.seq = 7; f.addr = 0x20; f.bsize = 2; f.payload = {0x12, 0xc0, 0xdb, 0x34};
    const Bytes raw = encode(f), wire = frame_on(serial, raw);
    switch (kind) {
    case 0: in.data = {0x01, 0xdb, 0x00, 0x55, 0x66}; break;                                   // an escape octet followed by something that is no escape code, no END after it
    case 1: in.data = {0xdb}; break;                                                           // the line ends inside an escape pair
    case 2: in.data.assign(wire.begin(), wire.begin() + (long)(wire.size() / 2)); break;        // half a frame
    case 3: in.data = {0x8a, 0x01, 0x01, 0x02}; break;                                         // (TCP) a prefix announcing 138 octets, three of them there
    case 4: in.data = wire; in.data.insert(in.data.end(), {0xdb, 0xdb, 0xc0}); break;           // a good frame, then ESC ESC END
    case 5: { Frame g = f; g.payload.assign(200, 0xdb); g.bsize = 100; in.data = frame_on(serial, encode(g)); in.data.pop_back(); } break;   // too long for the block, and cut
    default: in.data = {0xc0, 0xdb, 0xdd, 0xdb}; break;
    }
    COUNT("probe.earlier_instance_received_line_noise");
    for (int i = 0; i < 2; ++i) { Served S = serve(X, 4); (void)S; if (!S.recv_returned || !S.proc_returned) { c.fail("noprogress.prelude", "the instance that lived earlier did not return from receiving line noise"); return; } }
    g_be = nullptr;
}

// register-table result class -> response code, as the protocol document describes the codes
static int ref_regaccess_code(int reg_code) {
    switch (reg_code) {
    case REG_ACCESS_SUCCESS: return RC_ACK;
    case REG_ACCESS_UNINITIALISED: case REG_ACCESS_NOENTRY: return RC_EUNMAPPED;   // not mapped to storage
    case REG_ACCESS_RANGE: return RC_ERANGE;
    case REG_ACCESS_INVALID: return RC_EINVALID;
    case REG_ACCESS_READONLY: return RC_EACCESS;
    default: return RC_EIO;                                                            // failure / I/O error
    }
}

// expected response frame for a request that the server accepted, given the backend's verdict
static Frame response_for(const Frame &req, int code, uint32_t payload32, const Bytes &read_image, bool serial, int mt) {
    Frame r; r.type = req.type == T_RREQ ? T_RRESP : T_WRESP; r.meta = code; r.seq = req.seq; r.addr = req.addr;
    r.options = serial ? OPT_HDCRC : 0;
    if (code == RC_ACK) {
        if (mt == 16) r.options |= OPT_WS16;
        if (req.type == T_RREQ) { r.bsize = req.bsize; r.payload = read_image; }
    } else if (code_has_payload(code)) { r.bsize = 4; put32(r.payload, payload32); }
    if (serial && !r.payload.empty()) r.options |= OPT_PLCRC;
    return r;
}
static Frame meta_frame(int meta, bool serial);
static void second_instance_emits(Ctx *c) {
    const int64_t arg = g_snk_intrude_arg; const bool serial = (arg & 1) != 0; const int mt = (arg & 2) ? 8 : 16;
    Wire nil, out;
    Node B(*c, &nil, &out, serial, mt, 128, false, false, (arg & 4) != 0);
    const uint16_t seq = (uint16_t)(arg >> 3); B.p.session.sequence = seq;
    const uint32_t addr = (uint32_t)(arg * 2654435761u);
    uint16_t words[3] = {(uint16_t)(arg ^ 0xc0db), 0xc0c0, (uint16_t)(arg >> 4)};
    RPFrame rq; memset(&rq, 0, sizeof rq); rq.header.type = RP_FRAME_READ_REQUEST; rq.header.sequence = seq; rq.header.address = addr;
    Frame rqm; rqm.type = T_RREQ; rqm.seq = seq; rqm.addr = addr;
    int rc = 0; Frame f;
    switch ((arg >> 5) % 6) {   // one emitter of each family (they have separate scratch objects)
    case 0: rc = regp_req_write16(&B.p, addr, 3, words);
            f.type = T_WREQ; f.options = OPT_WS16 | (serial ? OPT_HDCRC : 0); f.seq = seq; f.addr = addr; f.bsize = 3; f.payload.assign((const uint8_t *)words, (const uint8_t *)words + 6); break;
    case 1: rc = regp_req_read8(&B.p, addr, 17);
            f.type = T_RREQ; f.options = serial ? OPT_HDCRC : 0; f.seq = seq; f.addr = addr; f.bsize = 17; break;
    case 2: { Bytes pl((const uint8_t *)words, (const uint8_t *)words + (mt == 16 ? 6 : 3));
              rc = regp_resp_ack(&B.p, &rq, words, 3);
              f = response_for(Frame(), RC_ACK, 0, pl, serial, mt); f.type = T_RRESP; f.seq = seq; f.addr = addr; f.bsize = 3; break; }
    case 3: rc = regp_resp_eunmapped(&B.p, &rq, addr ^ 0x55u); f = response_for(rqm, RC_EUNMAPPED, addr ^ 0x55u, Bytes(), serial, mt); break;
    case 4: rc = regp_resp_ebusy(&B.p, &rq); f = response_for(rqm, RC_EBUSY, 0, Bytes(), serial, mt); break;
    default: rc = regp_resp_meta(&B.p, 2); f = meta_frame(2, serial); break;
    }
    if (serial && !f.payload.empty()) f.options |= OPT_PLCRC;
    Bytes want = frame_on(serial, encode(f));
    COUNT("probe.second_instance_emitted_during_a_sink_call");
    if (rc < 0 || out.data != want) c->fail("intruder.emit", "a frame (emitter family %d) emitted by a second instance (%s, mem%d) while another instance's sink call was pending came out wrong (rc %d, %zu octets on the wire, %zu expected)", (int)((arg >> 5) % 6), serial ? "serial" : "tcp", mt, rc, out.data.size(), want.size());
}

// the source-side counterpart: while an instance waits in its channel source, a second instance (other wires, other allocator, other memory)
// receives a read request, serves it and frees the frame
static Served serve(Node &N, size_t payload_avail);
static void second_instance_serves(Ctx *c) {
    const int64_t arg = g_src_intrude_arg; const bool serial = (arg & 1) != 0; const int mt = (arg & 2) ? 8 : 16;
    Backend *outer = g_be;
    {
        Wire in, out;
        Node Y(*c, &in, &out, serial, mt, sizeof(RPFrame) + 64, (arg & 8) != 0, (arg & 4) != 0, false);
        Frame rq; rq.type = (arg & 16) ? T_WREQ : T_RREQ; rq.options = (serial ? OPT_HDCRC : 0) | (mt == 16 ? OPT_WS16 : 0); rq.seq = (uint16_t)(arg >> 5); rq.addr = (uint32_t)(arg * 40503u); rq.bsize = 3;
        if (rq.type == T_WREQ) { rq.payload = {0xc0, 0x01, 0xdb, 0x02, 0x03, 0xdd}; rq.payload.resize(mt == 16 ? 6 : 3); if (serial) rq.options |= OPT_PLCRC; }
        in.data = frame_on(serial, encode(rq));
        Y.be.salt = (uint64_t)arg;
        Served S = serve(Y, rq.payload.size());
        COUNT("probe.second_instance_served_during_a_source_call");
        bool ok = S.recv_returned && S.proc_returned && S.rc_recv >= 0 && S.rc_proc >= 0 && S.error_id == 0 && S.be_calls == 1 && S.live_after == 0 && S.replies.size() == 1 && S.calls[0].addr == rq.addr && S.calls[0].n == 3;
        if (ok) {
            Bytes img = rq.type == T_RREQ ? S.calls[0].data : Bytes();
            if (rq.type == T_WREQ && S.calls[0].data != rq.payload) ok = false;
            Bytes want = encode(response_for(rq, RC_ACK, 0, img, serial, mt));
            if (S.replies[0] != want) ok = false;
        }
        if (!ok) c->fail("intruder.serve", "a %s request received and served by a second instance (%s, mem%d) while another instance's source call was pending went wrong (recv %d, process %d, error id %d, %zu accesses, %zu replies)", rq.type == T_WREQ ? "write" : "read", serial ? "serial" : "tcp", mt, S.rc_recv, S.rc_proc, S.error_id, S.be_calls, S.replies.size());
    }
    g_be = outer;
}

static Frame meta_frame(int meta, bool serial) { Frame m; m.type = T_META; m.meta = meta; m.options = serial ? OPT_HDCRC : 0; return m; }
static std::string hex_short(const Bytes &b) { std::string s = hexs(b); if (s.size() > 96) s = s.substr(0, 96) + ".."; return s; }

// ------------------------------------------------------------------ harness
struct RegpHarness : Harness {
    const char *name() const override { return "regpsim"; }
    std::vector<std::string> props() const override { return {"C06", "C07", "C08", "C09"}; }
    std::string level(const std::string &p) const override { return p == "C07" ? "fault_enumeration" : "exploration"; }
    uint64_t runs(const std::string &p, const Tier &t) const override {
        if (p == "C07") return t.thorough() ? 300000 : 24000;
        if (p == "C08") return t.thorough() ? 6000000 : 1000000;
        return t.thorough() ? 8000000 : 1500000;
    }
    bool nontrivial(const Ctx &c) const override { return c.ops_done > 0 && (c.prop != "C07" || c.faults_fired > 0); }
    std::vector<std::string> probes(const std::string &p) const override {
        std::vector<std::string> v;
        if (p == "C06") { for (int k = 0; k < 12; ++k) { v.push_back("verdict_read_" + std::to_string(k)); v.push_back("verdict_write_" + std::to_string(k)); }
            for (const char *s : {"earlier_instance_received_line_noise", "instance_without_memory_attached", "read_of_64k_octets_or_more", "pipelined_3_or_more", "sequence_wrap", "word_size_mismatch", "response_ignored", "meta_ignored", "mem8", "mem16", "serial", "tcp", "zero_block_size", "request_from_real_client", "register_table_verdict_mapped", "reception_failure_inside_session", "block_recycled_with_stale_content", "reply_received_and_ignored_by_client", "read_at_or_near_capacity"}) v.push_back(s); }
        else if (p == "C07") for (const char *s : {"frame_of_64k_octets_or_more", "damage_beyond_64k_words", "idle_turn_after_a_frame", "reply_could_not_be_sent", "flip1", "flip2", "burst", "truncate", "extend", "header_word_flip", "class_header_encoding", "class_header_crc", "class_payload_size", "class_payload_crc", "raw_accept", "raw_tcp", "option_plcrc_without_hdcrc", "odd_payload_ws16", "payload_fault_answered_with_error_response", "classified_from_fallback_buffer"}) v.push_back(s);
        else if (p == "C08") { for (const char *s : {"earlier_instance_received_line_noise", "instance_without_memory_attached", "payload_of_64k_octets_or_more", "emitter_sink_failed", "channel_attached_again_mid_session", "req_read8", "req_read16", "req_write8", "req_write16", "resp_ack_payload", "resp_ack_empty", "resp_meta", "payload_with_slip_control_octets", "varint_prefix_2_octets", "sequence_wrap", "roundtrip_accepted"}) v.push_back(s);
            for (int k = 1; k < 12; ++k) v.push_back("resp_code_" + std::to_string(k)); }
        else for (const char *s : {"earlier_instance_received_line_noise", "frame_released_through_block_free", "instance_keeps_rp_default_allocator", "malloc_failed_underneath_default_allocator", "frame_of_64k_octets_or_more", "reply_could_not_be_sent", "malloc_failed_underneath_ufw_malloc", "alloc_failure_with_parsable_header", "alloc_failure_without_parsable_header", "empty_frame", "short_frame", "frame_len_room_minus_1", "frame_len_room", "frame_len_room_plus_1", "rx_overflow", "read_at_limit_minus_1", "read_at_limit", "read_at_limit_plus_1", "tx_overflow", "channel_error_mid_frame", "odd_payload_ws16", "slab_allocator", "block_size_minimum", "served_after_fault", "illegal_slip_sequence_on_the_wire"}) v.push_back(s);
        return v;
    }
    Json describe(const std::string &p) const override {
        Json d = Json::obj();
        Json real = Json::arr();
        for (const char *s : {"src/register-protocol.c", "src/rfc1055.c", "src/length-prefix.c", "src/variable-length-integer.c", "src/crc-16-arc.c", "src/endpoints/core.c", "src/endpoints/continuable-sink.c", "src/endpoints/buffer.c", "src/allocator.c (block_alloc/block_free)", "src/byte-buffer.c"}) real.push(s);
        Json stubs = Json::arr();
        for (const char *s : {"two simulated wires (byte FIFOs; octet- or chunk-style drivers, fragmentation scripts, end-of-data when empty, channel error at a position)", "allocator back end (generic or slab flavour): ledger, scripted failures, every block an exact-size heap block under ASan", "scripted-verdict 8/16-bit memory back end recording every call (address, block size, payload copy, room behind the pointer)"}) stubs.push(s);
        d["real"] = real; d["stubs"] = stubs;
        Json as = Json::arr();
        as.push("reference codec written from doc/regp.txt: packed checksum words (existence follows the option bits), header CRC continues over the payload-CRC word (as in the unit tests' wire images), block size = payload size except for read requests");
        if (p == "C06") {
            d["rule"] = "plans = {transport, memory word size (or no memory attached), block size, driver kinds, session start sequence, optionally an earlier instance that received line noise and a second instance working inside a sink / source call, ops: send request (via the real client emitter or the reference encoder) | send response/meta | serve}; the order of send/serve ops is the schedule (pipelining); every served frame is checked: exactly one backend call with the request's address/size/payload, exactly one reply equal octet-for-octet to the reference encoding of the prescribed response. Non-trivial = at least one frame served; distinct = distinct execution fingerprints";
            as.push("reads stay within the transmit capacity here (the boundary region belongs to C09)");
        } else if (p == "C07") {
            d["rule"] = "per seeded serial frame (all types, both word sizes, payload 0..8 words) the corruption catalogue is enumerated on the frame octets before SLIP: every single-bit flip, every two-bit flip inside address/size/sequence/checksum/payload, bursts of length 2..16 at every bit offset of those fields (all-ones pattern and one seeded interior pattern each), every single-bit flip of the first header word, every truncation, extensions by 1..4 octets; plus a differential family of arbitrary / mutated / option-combination octet sequences on both transports. Each corrupted delivery is one library execution. Non-trivial = at least one corrupted frame delivered";
            as.push("corruption is applied to frame octets, not to SLIP-encoded wire octets (a flip that creates a delimiter splits the frame and CRC mathematics no longer covers the pieces); wire-level damage is C12's subject");
            as.push("bursts: per (offset,length) the all-ones pattern and one seeded interior pattern are injected, not all 2^(len-2) patterns");
            as.push("the verdict of every delivered octet sequence must equal the reference classifier's; for catalogue corruptions the reference never says 'accept' (CRC-16/ARC detects them)");
            Json ex = Json::obj(); ex["fault_catalogue_enumerated_per_frame"] = true; d["extra"] = ex;
        } else if (p == "C08") {
            d["rule"] = "plans = {transport, memory word size (or no memory attached), session start sequence, optionally an earlier instance that received line noise and a second instance working inside a sink / source call, emit calls: regp_req_read8/16, regp_req_write8/16, regp_resp_ack (with/without payload), each of the eleven regp_resp_e*, regp_resp_meta}; every frame put on the wire is compared octet for octet with the reference encoder and then received by a peer's regp_recv, whose reported fields must equal the intended ones. Non-trivial = at least one frame emitted";
        } else {
            d["rule"] = "plans = {transport, memory word size, block size from sizeof(RPFrame)+1, allocator flavour (release through regp_free or block_free), optionally an earlier instance that received line noise and a second instance working inside a sink / source call, allocation-failure script, stream of framed segments whose content is valid / mutated / random / oversize / short / empty, fragmentation script, optional channel error at an octet position, optional truncated last TCP frame}; the documented loop recv; process; free runs until the wire is empty; ledger, ASan, backend capacity probe and outcome rules are checked per frame. Non-trivial = at least one frame served";
            as.push("a read whose answer fits the buffer size but not the block once the header is accounted for may be answered with ETXOVERFLOW or a correct ACK; only reads larger than the buffer size must be ETXOVERFLOW; the backend capacity rule is unconditional");
            as.push("on TCP no corruption of the length prefix is injected (no resynchronisation is promised); segments are always correctly delimited");
            as.push("for oversized or unallocatable frames that are not requests only 'no backend call, no acknowledgement' is demanded");
        }
        d["assumptions"] = as;
        return d;
    }

    // ------------------------------------------------------------ generation helpers
    static Json frame_json(const Frame &f) {
        Json j = Json::obj(); j["type"] = f.type; j["opt"] = f.options; j["meta"] = f.meta; j["seq"] = (long long)f.seq; j["addr"] = (long long)f.addr; j["bsize"] = (long long)f.bsize; j["pl"] = hexs(f.payload); return j;
    }
    static Frame frame_from(const Json &j) {
        Frame f; f.type = (int)(j.geti("type") & 15); f.options = (int)(j.geti("opt") & 15); f.meta = (int)(j.geti("meta") & 15); f.seq = (uint16_t)j.geti("seq"); f.addr = (uint32_t)j.geti("addr"); f.bsize = (uint32_t)j.geti("bsize"); f.payload = unhex(j.gets("pl"));
        if (f.payload.size() > 70000) f.payload.resize(70000);
        return f;
    }
    static Bytes gen_payload(Rng &r, size_t n) {
        // special payloads whose CRC-16/ARC is 0x0000: all zero, or ending in their own checksum (low octet first)
        if (n >= 1 && r.chance(1, 8)) return Bytes(n, 0);
        if (n >= 3 && r.chance(1, 10)) { Bytes b = gen_payload_plain(r, n - 2); uint16_t c = crc16arc(b.data(), b.size()); b.push_back((uint8_t)c); b.push_back((uint8_t)(c >> 8)); return b; }
        return gen_payload_plain(r, n);
    }
    // payloads too large to be spelled out in a plan are regenerated from a seed (every octet value occurs, SLIP control octets included)
    static Bytes seeded_payload(uint64_t seed, size_t n) { Bytes b(n); uint64_t st = seed * 0x9e3779b97f4a7c15ULL + 0x1234567; for (size_t i = 0; i < n; i += 8) { uint64_t v = splitmix64(st); for (size_t q = 0; q < 8 && i + q < n; ++q) b[i + q] = (uint8_t)(v >> (8 * q)); } return b; }
    static Bytes gen_payload_plain(Rng &r, size_t n) { Bytes b(n); for (auto &x : b) { switch (r.below(6)) { case 0: x = 0xc0; break; case 1: x = 0xdb; break; case 2: x = 0xdc; break; case 3: x = 0xdd; break; default: x = (uint8_t)r.below(256); } } return b; }
    // a conformant frame for the transport
    static Frame gen_valid(Rng &r, bool serial, int type, bool ws16, size_t maxwords) {
        Frame f; f.type = type; f.seq = (uint16_t)(r.chance(1, 4) ? 0xfffe + r.below(2) : r.below(65536)); f.addr = (uint32_t)(r.chance(1, 4) ? 0xffffff00u + r.below(256) : r.below(0x10000));
        size_t ws = ws16 ? 2 : 1;
        size_t n = r.chance(1, 8) ? 0 : (size_t)r.range(1, (int64_t)maxwords);
        if (type == T_RREQ) { f.bsize = (uint32_t)n; }
        else if (type == T_WREQ) { f.bsize = (uint32_t)n; f.payload = gen_payload(r, n * ws); }
        else if (type == T_RRESP || type == T_WRESP) {
            f.meta = (int)r.below(12);
            if (f.meta == RC_ACK) { if (type == T_RRESP) { f.bsize = (uint32_t)n; f.payload = gen_payload(r, n * ws); } }
            else { ws16 = false; if (code_has_payload(f.meta)) { f.bsize = 4; f.payload = gen_payload(r, 4); } }
        } else { f.type = T_META; f.meta = 1 + (int)r.below(2); f.seq = 0; f.addr = 0; ws16 = false; }
        f.options = (ws16 ? OPT_WS16 : 0) | (serial ? OPT_HDCRC : 0) | ((serial && !f.payload.empty()) ? OPT_PLCRC : 0);
        return f;
    }

    Json gen(const std::string &prop, Rng &r, const Tier &t, uint64_t) override {
        Json p = Json::obj();
        bool serial = prop == "C07" ? !r.chance(1, 5) : r.chance(1, 2);
        int mt = r.chance(1, 2) ? 16 : 8;
        p["serial"] = serial; p["mt"] = mt;
        p["src_octet"] = r.chance(1, 2); p["snk_octet"] = r.chance(1, 2); p["slab"] = r.chance(1, 3); p["recycle"] = r.chance(1, 2); p["confhist"] = (long long)(r.chance(1, 2) ? 0 : r.below(16));
        size_t minblock = sizeof(RPFrame) + 1;
        int64_t block = 128;
        if (prop == "C09" || r.chance(1, 3)) { switch (r.below(5)) { case 0: block = (int64_t)minblock + r.range(0, 3); break; case 1: block = (int64_t)minblock + r.range(12, 40); break; case 2: block = r.range(100, 200); break; case 3: block = t.thorough() ? r.range(200, 20000) : r.range(200, 600); break; default: block = 128; } }
        if (prop == "C06" && block < (int64_t)minblock + 40) block = (int64_t)minblock + 40 + r.range(0, 60);
        const bool bigblock = (prop == "C09" || prop == "C06") && r.chance(1, 150);   // rarely a block around / above 64 KiB (sizes and counts that do not fit 16 bits)
        if (bigblock) { static const int64_t BB[] = {65535, 65536, 65537, 65552, 70000, 131072, 131080, 196700}; block = (int64_t)sizeof(RPFrame) + BB[r.below(8)]; }
        if (prop == "C09" && r.chance(1, 6)) { p["defalloc"] = 1; block = (int64_t)RP_DEFAULT_BUFFER_SIZE; }   // the served instance keeps the library's rp_default_allocator object
        p["block"] = (long long)block; if (r.chance(1, 3)) p["macro_init"] = 1;
        if (r.chance(1, 4)) { Json ij = Json::arr(); ij.push((long long)(r.chance(1, 2) ? r.below(8) : r.below(200))); ij.push((long long)r.below(1 << 20)); p["intrude"] = ij; }
        if (r.chance(1, 5)) { Json ij = Json::arr(); ij.push((long long)(r.chance(1, 2) ? r.below(8) : r.below(120))); ij.push((long long)r.below(1 << 20)); p["sintrude"] = ij; }   // a second instance serves a request while the first waits in its source
        if (r.chance(1, 3)) { static const int F[] = {0x00, 0xff, 0xff, 0xa5, 0x01}; p["fill"] = F[r.below(5)]; }
        if (r.chance(1, 4)) p["scrub"] = r.chance(1, 2) ? 0xff : 0x00;
        if (r.chance(1, 4)) p["stock_heap"] = 1;
        if (prop != "C07" && r.chance(1, 5)) { Json pj = Json::arr(); pj.push((long long)r.below(4)); pj.push((long long)r.below(7)); p["prelude"] = pj; }   // another instance received line noise before the scenario
        if (prop == "C09" && r.chance(1, 5)) p["bfree"] = 1;
        if (prop == "C08") { static const int DIRT[] = {0, 0, 0xff, 0xa5, 0x01, 0x80}; p["dirt"] = DIRT[r.below(6)]; }
        if ((prop == "C08" && mt == 16 && r.chance(1, 4)) || (prop == "C06" && mt == 16 && r.chance(1, 10))) p["nomem"] = 1;   // the emitting / serving instance never attaches memory
        if (r.chance(1, 4)) p["lend"] = (long long)(r.chance(1, 3) ? r.range(1, 6) : (r.chance(1, 2) ? r.range(7, 40) : r.range(41, 400)));   // the channel sources implement the getbuffer extension
        const size_t room = (size_t)block - sizeof(RPFrame);
        p["seq0"] = (long long)(r.chance(1, 3) ? 0xfff0 + r.below(16) : r.below(65536));
        { Json s = Json::arr(); int n = r.chance(1, 2) ? 0 : (int)r.range(1, 12); for (int i = 0; i < n; ++i) s.push((long long)r.range(1, 5)); p["frag"] = s; }
        Json ops = Json::arr();
        if (prop == "C06") {
            const size_t ws = mt == 16 ? 2 : 1;
            size_t maxwords = (room > 24 ? room - 24 : 1) / ws; if (maxwords > (t.thorough() ? 400 : 24)) maxwords = t.thorough() ? 400 : 24; if (maxwords < 1) maxwords = 1;
            int n = (int)r.range(1, t.thorough() ? 24 : 12), pending = 0;
            for (int i = 0; i < n; ++i) {
                if (pending > 0 && r.chance(1, 2)) { Json o = Json::obj(); o["k"] = "serve"; ops.push(o); --pending; continue; }
                Json o = Json::obj();
                int kind = (int)r.below(10);
                if (kind < 7) {
                    bool ws16 = r.chance(1, 8) ? (mt != 16) : (mt == 16);
                    bool wr = r.chance(1, 2);
                    Frame f = gen_valid(r, serial, wr ? T_WREQ : T_RREQ, ws16, maxwords);
                    if (!wr && r.chance(1, 4)) f.bsize = 0x7fffffff;   // clamped to (capacity - 0..3) at execution time
                    o["k"] = r.chance(1, 2) ? "client" : "ref"; o["f"] = frame_json(f);
                    o["verdict"] = (long long)(r.chance(1, 2) ? 0 : r.below(12)); o["vaddr"] = (long long)(r.chance(1, 2) ? f.addr + r.below(8) : r.below(0x100000000ull));
                    o["salt"] = (long long)r.below(100000);
                    if (r.chance(1, 5)) o["regcode"] = (long long)r.below(8);   // verdict produced by the register table, mapped by regaccess2blockaccess()
                } else { Frame f = gen_valid(r, serial, kind == 7 ? T_RRESP : (kind == 8 ? T_WRESP : T_META), mt == 16, 8); o["k"] = "ref"; o["f"] = frame_json(f); }
                if (r.chance(1, 6)) {   // a frame that fails reception, in between the valid ones: never executed, the session goes on
                    Frame f = frame_from(o.get("f")); Bytes b = encode(f);
                    switch (r.below(4)) { case 0: b.resize(r.below(12)); break; case 1: b[1] |= 0x01 + (uint8_t)r.below(15); break; case 2: b[r.below(12)] ^= (uint8_t)(1u << r.below(8)); break; default: if (b.size() > 12) b[12 + r.below(b.size() - 12)] ^= (uint8_t)(1u << r.below(8)); else b.push_back(0x33); }
                    o["k"] = "rawframe"; o["raw"] = hexs(b);
                }
                ops.push(o); ++pending;
            }
        } else if (prop == "C07") {
            // one plan in 40 carries a frame for the (expensive) corruption catalogue, the others feed the differential family
            bool cat = serial && r.chance(1, 40);
            int n = cat ? 1 : (int)r.range(3, 8);
            if (!cat && r.chance(1, 3)) p["persist"] = 1;
            if (!cat && r.chance(1, 30)) {   // a frame of 64 KiB and more (payload regenerated from a seed), intact or with one bit damaged somewhere in the payload
                static const int64_t W[] = {65536, 65535, 65537, 65544, 32768, 70000, 131072, 131073};
                Json o = Json::obj(); o["k"] = "big"; o["type"] = r.chance(1, 2) ? T_WREQ : T_RRESP; o["ws16"] = r.chance(2, 3); o["units"] = (long long)W[r.below(8)];
                o["seed"] = (long long)r.below(1 << 30); o["plcrc"] = r.chance(3, 4);
                if (r.chance(2, 3)) { o["flipat"] = (long long)r.below(1 << 30); o["flipbit"] = (long long)r.below(8); }
                ops.push(o); n = (int)r.range(0, 2);
            }
            for (int i = 0; i < n; ++i) {
                Json o = Json::obj();
                bool raw = !cat;
                static const int TYPES[] = {T_RREQ, T_WREQ, T_WREQ, T_RRESP, T_WRESP, T_META};
                bool ws16 = r.chance(1, 2);
                Frame f = gen_valid(r, serial, TYPES[r.below(6)], ws16, 8);
                if (!raw) { o["k"] = "catalogue"; o["f"] = frame_json(f); o["salt"] = (long long)r.below(1 << 20); }
                else {
                    o["k"] = "raw";
                    Bytes b;
                    switch (r.below(6)) {
                    case 5: {  // payload damaged, payload-checksum word forced to a special value, header checksum consistent: only the payload check stands in the way
                        f = gen_valid(r, serial, r.chance(1, 2) ? T_WREQ : T_RRESP, ws16, 8); f.meta = 0; if (f.payload.empty()) { f.payload = gen_payload_plain(r, ws16 ? 2 : 1); f.bsize = 1; }
                        f.options |= OPT_PLCRC | (r.chance(3, 4) ? OPT_HDCRC : 0);
                        uint16_t good = crc16arc(f.payload.data(), f.payload.size());
                        if (r.chance(2, 3)) f.payload[r.below(f.payload.size())] ^= (uint8_t)(1u << r.below(8));
                        static const uint16_t SP[] = {0x0000, 0xffff, 0x0001, 0x8000};
                        b = encode_forged_plcrc(f, r.chance(1, 4) ? good : SP[r.below(4)]); break; }
                    case 0: b = gen_payload(r, (size_t)r.range(0, 40)); break;                            // arbitrary octets
                    case 1: { f.options = (int)r.below(8) | (r.chance(1, 8) ? 8 : 0); b = encode(f, true); break; }   // every option-bit combination, checksums consistent with the bits
                    case 2: { b = encode(f, true); size_t k = (size_t)r.range(1, 3); for (size_t q = 0; q < k && !b.empty(); ++q) b[r.below(b.size())] ^= (uint8_t)(1u << r.below(8)); break; }  // mutated valid
                    case 3: { f.options = (int)r.below(8); b = encode(f, true); if (r.chance(1, 2) && !b.empty()) b.resize(r.below(b.size() + 1)); else b.push_back((uint8_t)r.below(256)); break; }
                    default: { f.options |= OPT_WS16; f.type = r.chance(1, 2) ? T_WREQ : T_RRESP; f.meta = 0; f.payload = gen_payload(r, 2 * (size_t)r.range(0, 4) + 1); f.bsize = (uint32_t)(f.payload.size() / 2 + r.below(2)); b = encode(f, true); }  // odd payload with 16-bit words
                    }
                    o["raw"] = hexs(b);
                    if (r.chance(1, 6)) o["allocfail"] = 1;
                    if (r.chance(1, 2)) o["idle"] = 1;
                    if (r.chance(1, 5)) { Json se = Json::arr(); se.push((long long)r.below(12)); se.push((long long)r.below(13)); o["snkerr"] = se; }
                }
                ops.push(o);
            }
        } else if (prop == "C08") {
            int n = (int)r.range(1, 8);
            for (int i = 0; i < n; ++i) {
                Json o = Json::obj();
                static const std::vector<std::string> E = {"req_read8", "req_read16", "req_write8", "req_write16", "ack", "ack", "err", "err", "err", "meta", "rechannel"};
                std::string e = r.pick(E); o["e"] = e;
                o["addr"] = (long long)(r.chance(1, 4) ? 0xffffffffull - r.below(4) : (r.chance(1, 4) ? 0xc0dbc0dbull : r.below(0x10000)));
                size_t maxn = t.thorough() && r.chance(1, 10) ? 9000 : (r.chance(1, 6) ? 140 : 12);
                size_t n2 = r.chance(1, 8) ? 0 : (size_t)r.range(1, (int64_t)maxn);
                o["n"] = (long long)n2;
                size_t ws = (e == "req_write16" || ((e == "ack") && mt == 16)) ? 2 : 1;
                if (e == "req_write8" || e == "req_write16" || e == "ack") o["pl"] = hexs(gen_payload(r, n2 * ws));
                if (r.chance(1, 8)) { Json se = Json::arr(); se.push((long long)r.below(40)); se.push((long long)(r.chance(1, 4) ? 99 : r.below(13))); o["snkerr"] = se; }
                if ((e == "req_write8" || e == "req_write16" || e == "ack") && r.chance(1, 250)) {   // 64 KiB of payload and more: regenerated from a seed
                    static const int64_t OCT[] = {65536, 65534, 65538, 65540, 70000, 131072, 131074, 196608};
                    Json bp = Json::arr(); bp.push((long long)OCT[r.below(8)]); bp.push((long long)r.below(1 << 30)); o["bigpl"] = bp; o["pl"] = "";
                    if (e == "ack") o["ftype"] = T_RREQ;
                }
                if (e == "req_read8" || e == "req_read16") o["n"] = (long long)(r.chance(1, 4) ? r.below(0x100000000ull) : n2);
                o["code"] = (long long)(1 + r.below(11)); o["arg"] = (long long)(r.chance(1, 3) ? 0xc0dbdcddull : r.below(0x100000000ull));
                o["ftype"] = r.chance(1, 2) ? T_RREQ : T_WREQ; o["fseq"] = (long long)r.below(65536);
                o["metacode"] = (long long)(1 + r.below(2));
                ops.push(o);
            }
        } else {  // C09
            const size_t ws = mt == 16 ? 2 : 1;
            int n = (int)r.range(1, 6);
            { Json s = Json::arr(); int k = r.chance(1, 2) ? 0 : (int)r.range(1, 8); for (int i = 0; i < k; ++i) s.push(r.chance(1, 3) ? 1 : 0); p["allocfail"] = s; }
            for (int i = 0; i < n; ++i) {
                Json o = Json::obj(); o["k"] = "seg";
                Bytes b;
                bool ws16 = r.chance(1, 6) ? (mt != 16) : (mt == 16);
                if (serial && r.chance(1, 8)) {   // line garbage at wire level: arbitrary octets incl. invalid escapes and stray delimiters
                    Bytes w = gen_payload_plain(r, (size_t)r.range(1, 24));
                    if (r.chance(1, 2)) { Bytes v = slip(encode(gen_valid(r, serial, T_WREQ, ws16, 4))); size_t at = r.below(v.size()); v.insert(v.begin() + (long)at, w.begin(), w.end()); w = v; }
                    o["k"] = "wire"; o["raw"] = hexs(w); o["verdict"] = (long long)r.below(12); o["salt"] = (long long)r.below(100000);
                    ops.push(o); continue;
                }
                if (bigblock && r.chance(2, 3)) {   // frames around the room of a big block: fitting exactly, one too long, far too long; valid big writes
                    Frame f = gen_valid(r, serial, r.chance(1, 4) ? T_RRESP : T_WREQ, ws16, 0); f.meta = 0; f.payload.clear();
                    size_t hl = 12 + (serial ? 4 : 0);
                    int64_t pl = (int64_t)room - (int64_t)hl + (r.chance(1, 2) ? r.range(-3, 3) : -r.range(0, 70000)); if (pl < 0) pl = 0;
                    Json bp = Json::arr(); bp.push((long long)pl); bp.push((long long)r.below(1 << 30)); bp.push((long long)(r.chance(1, 4) ? r.range(1, 40) : 0));
                    o["bigf"] = frame_json(f); o["bigpl"] = bp; o["raw"] = "";
                    o["verdict"] = (long long)(r.chance(2, 3) ? 0 : r.below(12)); o["salt"] = (long long)r.below(100000);
                    ops.push(o); continue;
                }
                switch (r.below(10)) {
                case 0: b.clear(); break;                                                                  // empty frame
                case 1: b = gen_payload(r, (size_t)r.range(1, 11)); break;                                 // shorter than a header
                case 2: { Frame f = gen_valid(r, serial, T_WREQ, ws16, 4); size_t hl = encode(f).size() - f.payload.size(); int64_t target = (int64_t)room + r.range(-1, 1); int64_t pl = target - (int64_t)hl; if (pl < 0) pl = 0; pl -= pl % (int64_t)(ws16 ? 2 : 1); f.payload = gen_payload(r, (size_t)pl); f.bsize = (uint32_t)(f.payload.size() / (ws16 ? 2 : 1)); if (serial && !f.payload.empty()) f.options |= OPT_PLCRC; b = encode(f); break; }  // length around the block room
                case 3: { Frame f = gen_valid(r, serial, r.chance(1, 2) ? T_WREQ : T_RREQ, ws16, 4); b = encode(f); b.resize(room + (size_t)r.range(1, 40), 0x55); break; }                          // oversize
                case 4: { Frame f = gen_valid(r, serial, T_RREQ, mt == 16, 4); int64_t lim = (int64_t)(room / ws); f.bsize = (uint32_t)std::max<int64_t>(0, lim + r.range(-14, 2)); b = encode(f); break; }   // read around the transmit limit
                case 5: { Frame f = gen_valid(r, serial, T_RREQ, mt == 16, 4); f.bsize = (uint32_t)(r.chance(1, 2) ? 0xffffffffu - r.below(4) : (uint32_t)(room + r.below(1000))); b = encode(f); break; }      // huge read
                case 6: { Frame f = gen_valid(r, serial, r.chance(1, 2) ? T_WREQ : T_RRESP, true, 4); f.options |= OPT_WS16; f.meta = 0; f.payload = gen_payload(r, 2 * (size_t)r.range(0, 5) + 1); f.bsize = (uint32_t)(f.payload.size() / 2 + r.below(2)); if (serial) f.options |= OPT_PLCRC; b = encode(f); break; }  // odd payload
                case 7: { static const int TY[] = {T_RREQ, T_WREQ, T_RRESP, T_WRESP, T_META}; Frame f = gen_valid(r, serial, TY[r.below(5)], ws16, 8); b = encode(f); size_t k = (size_t)r.range(1, 3); for (size_t q = 0; q < k && !b.empty(); ++q) b[r.below(b.size())] ^= (uint8_t)(1u << r.below(8)); if (r.chance(1, 3)) b.resize(r.below(b.size() + 1)); break; }  // mutated valid
                case 8: { Frame f = gen_valid(r, serial, r.chance(1, 2) ? T_WREQ : T_RREQ, ws16, 8); f.options = (int)r.below(16); b = encode(f); break; }                                          // option combinations
                default: { Frame f = gen_valid(r, serial, r.chance(1, 2) ? T_WREQ : T_RREQ, mt == 16, std::max<size_t>(1, std::min<size_t>(12, room > 24 ? (room - 24) / ws : 1))); b = encode(f); }           // plain valid request
                }
                o["raw"] = hexs(b);
                o["verdict"] = (long long)(r.chance(2, 3) ? 0 : r.below(12)); o["salt"] = (long long)r.below(100000);
                ops.push(o);
            }
            if (r.chance(1, 6)) { Json e = Json::arr(); e.push((long long)r.range(0, 60)); e.push(HARD_ERRORS[r.below(N_HARD_ERRORS)]); p["src_err"] = e; }
            if (r.chance(1, 5)) { Json e = Json::arr(); e.push((long long)(r.chance(1, 2) ? r.below(4) : r.below(80))); e.push((long long)r.below(13)); p["snk_err"] = e; }
            if (!serial && r.chance(1, 8)) p["truncate_last"] = (long long)r.range(1, 8);
        }
        p["ops"] = ops;
        return p;
    }

    // ------------------------------------------------------------ execution
    struct Cfg { bool serial; int mt; size_t block; bool slab, so, ko; uint16_t seq0; bool recycle; unsigned confhist; bool defalloc; };
    static Cfg cfg_of(const Json &plan) {
        g_macro_init = plan.geti("macro_init") != 0; g_bind_with_macros = false; g_free_via_block = plan.geti("bfree") != 0;
        g_stock_heap = plan.geti("stock_heap") != 0 && plan.geti("recycle") == 0 && plan.geti("defalloc") == 0; g_fail_next_malloc = false; g_heap_led = nullptr; g_defalloc_next = false;
        g_snk_calls = 0; g_snk_intruder = nullptr; g_snk_intrude_at = -1; g_src_calls = 0; g_src_intruder = nullptr; g_src_intrude_at = -1;
        if (plan.has("sintrude")) { const Json &ij = plan.get("sintrude"); g_src_intrude_at = ij.ati(0, 0); if (g_src_intrude_at < 0 || g_src_intrude_at > 100000) g_src_intrude_at = 0; g_src_intrude_arg = ij.ati(1, 0) & 0xfffff; g_src_intruder = second_instance_serves; }
        if (plan.has("intrude")) { const Json &ij = plan.get("intrude"); g_snk_intrude_at = ij.ati(0, 0); if (g_snk_intrude_at < 0 || g_snk_intrude_at > 100000) g_snk_intrude_at = 0; g_snk_intrude_arg = ij.ati(1, 0) & 0xfffff; g_snk_intruder = second_instance_emits; }
        g_block_fill = plan.has("fill") ? (int)(plan.geti("fill") & 0xff) : 0xbe; g_block_scrub = plan.has("scrub") ? (int)(plan.geti("scrub") & 0xff) : -1;
        if (g_block_fill == 0xff || g_block_scrub == 0xff) COUNT("probe.allocator_blocks_hold_0xff");
        { int64_t l = plan.geti("lend"); if (l < 0) l = 0; if (l > 4096) l = 4096; g_lend = (size_t)l; }
        Cfg c; c.serial = plan.geti("serial") != 0; c.mt = plan.geti("mt", 16) == 8 ? 8 : 16;
        int64_t b = plan.geti("block", 128); if (b < (int64_t)sizeof(RPFrame) + 1) b = (int64_t)sizeof(RPFrame) + 1; if (b > 400000) b = 400000; c.block = (size_t)b;
        c.slab = plan.geti("slab") != 0; c.so = plan.geti("src_octet") != 0; c.ko = plan.geti("snk_octet") != 0; c.seq0 = (uint16_t)plan.geti("seq0"); c.recycle = plan.geti("recycle") != 0; c.confhist = (unsigned)(plan.geti("confhist") & 15);
        c.defalloc = plan.geti("defalloc") != 0; if (c.defalloc) { c.block = (size_t)RP_DEFAULT_BUFFER_SIZE; c.slab = false; c.recycle = false; }
        return c;
    }
    static void load_frag(WireSrc &s, const Json &plan) { Json j = Json::arr(); const Json &f = plan.get("frag"); for (size_t i = 0; i < f.size(); ++i) { int64_t v = f.ati(i, 1); j.push((long long)(v < 1 ? 1 : v)); } s.frag.load(j); }

    void exec(const Json &plan, Ctx &c) override {
        if (c.prop == "C06") exec_c06(plan, c);
        else if (c.prop == "C07") exec_c07(plan, c);
        else if (c.prop == "C08") exec_c08(plan, c);
        else exec_c09(plan, c);
    }

    // judge one served frame whose raw content is known; returns false after a violation.
    // 'strict_reply' = compare the reply octet-for-octet with the reference encoding
    struct Ctxt { const Cfg *cf; int verdict = 0; uint32_t vaddr = 0; bool alloc_failed = false; bool voidmem = false; };
    bool judge(Ctx &c, Node &N, const Bytes &raw, const Served &S, const Ctxt &x, const std::string &site) {
        const Cfg &cf = *x.cf;
        auto F = [&](const std::string &rule, const char *fmt, ...) __attribute__((format(printf, 3, 4))) {
            char b[700]; va_list ap; va_start(ap, fmt); vsnprintf(b, sizeof b, fmt, ap); va_end(ap);
            c.fail(rule + "." + site, "%s frame %s (%s, mem%d, block %zu): %s", site.c_str(), hex_short(raw).c_str(), cf.serial ? "serial" : "tcp", cf.mt, cf.block, b);
        };
        if (!S.recv_returned || !S.proc_returned) { F("noprogress", "%s did not return within the step budget", S.recv_returned ? "regp_process" : "regp_recv"); return false; }
        if (S.snk_failed) {
            // the reply could not be sent (the channel sink failed once). What still holds: a frame that fails reception is never executed, whatever
            // regp_recv returned and whatever the documented loop calls afterwards; every block is released exactly once
            Frame f0; Verdict v0 = classify(raw, f0);
            const bool early0 = x.alloc_failed || raw.size() > cf.block - sizeof(RPFrame);
            COUNT("probe.reply_could_not_be_sent");
            if ((v0 != V_ACCEPT || early0 || !f0.is_request()) && S.be_calls != 0) { F("executed", "frame classified %s%s caused %zu memory access(es) (the reply to it could not be sent)", verdict_name(v0), early0 ? " (early error)" : "", S.be_calls); return false; }
            if (S.be_calls > 1) { F("accesscount", "%zu memory accesses for one frame", S.be_calls); return false; }
            if (S.live_after != 0) { F("leak", "%zu allocator block(s) still held after recv; process; free (reply sink failed)", S.live_after); return false; }
            if (S.unknown_free) { F("badfree", "a pointer that is not a live allocator block was released"); return false; }
            return true;
        }
        if (S.rc_recv < 0) { F("recv", "regp_recv returned %d on a fault-free channel", S.rc_recv); return false; }
        if (S.rc_proc < 0) { F("process", "regp_process returned %d", S.rc_proc); return false; }
        if (S.live_after != 0) { F("leak", "%zu allocator block(s) still held after recv; process; free", S.live_after); return false; }
        if (S.unknown_free) { F("badfree", "a pointer that is not a live allocator block was released"); return false; }
        if (!S.reply_framing_ok) { F("replyframing", "reply wire %s is not well-framed", hex_short(S.reply_wire).c_str()); return false; }
        Frame f; Verdict v = classify(raw, f);
        const size_t room = cf.block - sizeof(RPFrame);
        // --- expected replies
        std::vector<Bytes> want; bool want_known = true; int want_err = 0; size_t want_calls = 0;
        Bytes read_image;
        bool early = x.alloc_failed || raw.size() > room;
        if (early) {
            want_err = x.alloc_failed ? EBUSY : ENOMEM;
            // the early reply is derived from the first 16 octets of the frame
            Bytes head(raw.begin(), raw.begin() + (long)std::min<size_t>(raw.size(), 16));
            Frame hf; Verdict hv = classify(head, hf);
            if (hv == V_HEADERENC) want.push_back(encode(meta_frame(META_EHEADERENC, cf.serial)));
            else if (hv == V_HEADERCRC) want.push_back(encode(meta_frame(META_EHEADERCRC, cf.serial)));
            else if (hf.is_request()) want.push_back(encode(response_for(hf, x.alloc_failed ? RC_EBUSY : RC_ERXOVERFLOW, (uint32_t)room, Bytes(), cf.serial, cf.mt)));
            else want_known = false;   // latitude: non-requests
            if (!x.alloc_failed && room < 16) want_known = false;   // latitude: the block cannot even hold a complete header to echo from
        } else switch (v) {
        case V_HEADERENC: want_err = EBADMSG; want.push_back(encode(meta_frame(META_EHEADERENC, cf.serial))); break;
        case V_HEADERCRC: want_err = EILSEQ; want.push_back(encode(meta_frame(META_EHEADERCRC, cf.serial))); break;
        case V_PAYLOADSIZE: want_err = EFAULT; if (f.is_request()) want.push_back(encode(response_for(f, RC_EPAYLOADSIZE, 0, Bytes(), cf.serial, cf.mt))); break;
        case V_PAYLOADCRC: want_err = EPROTO; if (f.is_request()) want.push_back(encode(response_for(f, RC_EPAYLOADCRC, 0, Bytes(), cf.serial, cf.mt))); break;
        case V_ACCEPT:
            if (!f.is_request()) break;   // responses and meta messages: no access, no reply
            if (((f.options & OPT_WS16) != 0) != (cf.mt == 16)) { want.push_back(encode(response_for(f, RC_EWORDSIZE, 0, Bytes(), cf.serial, cf.mt))); break; }
            {
                const size_t ws = cf.mt == 16 ? 2 : 1;
                if (f.type == T_RREQ && (uint64_t)f.bsize * ws > room) {   // can never fit
                    want.push_back(encode(response_for(f, RC_ETXOVERFLOW, (uint32_t)room, Bytes(), cf.serial, cf.mt))); break;
                }
                if (x.voidmem) {   // no memory attached: the documented default backend answers every access 'unmapped' at the address asked for (its calls cannot be observed)
                    want.push_back(encode(response_for(f, RC_EUNMAPPED, f.addr, Bytes(), cf.serial, cf.mt))); break;
                }
                want_calls = 1;
                if (S.be_calls == 1 && S.calls[0].write == false) read_image = S.calls[0].data;
                int code = x.verdict; uint32_t p32 = (code == RC_ERXOVERFLOW || code == RC_ETXOVERFLOW) ? (uint32_t)room : x.vaddr;
                want.push_back(encode(response_for(f, code, p32, read_image, cf.serial, cf.mt)));
            }
            break;
        }
        // --- never execute / never acknowledge anything that was not accepted
        if ((v != V_ACCEPT || early) && S.be_calls != 0) { F("executed", "frame classified %s%s caused %zu memory access(es)", verdict_name(v), early ? " (early error)" : "", S.be_calls); return false; }
        if (v != V_ACCEPT || early) for (auto &rp : S.replies) { Frame rf; if (classify(rp, rf) == V_ACCEPT && rf.is_response() && rf.meta == RC_ACK) { F("acknowledged", "frame classified %s%s was acknowledged", verdict_name(v), early ? " (early error)" : ""); return false; } }
        // --- receiver verdict
        if (S.error_id != want_err) { F("verdict", "receiver reports error id %d, the reference reading says %s -> %d", S.error_id, early ? (x.alloc_failed ? "allocation-failure" : "rx-overflow") : verdict_name(v), want_err); return false; }
        if (v == V_ACCEPT && !early) {
            const Frame &g = S.got;
            if (!S.have_frame) { F("fields", "accepted frame but no frame object returned"); return false; }
            if (g.type != f.type || g.options != f.options || g.meta != f.meta || g.seq != f.seq || g.addr != f.addr || g.bsize != f.bsize || g.payload != f.payload) {
                F("fields", "receiver reports type %d opt %d meta %d seq %u addr %u bsize %u payload %zu octets; sent type %d opt %d meta %d seq %u addr %u bsize %u payload %zu octets", g.type, g.options, g.meta, g.seq, g.addr, g.bsize, g.payload.size(), f.type, f.options, f.meta, f.seq, f.addr, f.bsize, f.payload.size());
                return false;
            }
        }
        // --- backend access
        bool tx_latitude = false;
        if (want_calls == 1 && f.type == T_RREQ) {
            // latitude (c): an answer that fits the buffer size but not the block behind the header may be ETXOVERFLOW instead
            const size_t ws = cf.mt == 16 ? 2 : 1;
            size_t hdr = raw.size() - f.payload.size();   // the request's own header precedes the data in the block
            if ((uint64_t)f.bsize * ws + hdr > room && S.be_calls == 0) { tx_latitude = true; want.clear(); want.push_back(encode(response_for(f, RC_ETXOVERFLOW, (uint32_t)room, Bytes(), cf.serial, cf.mt))); want_calls = 0; }
        }
        if (S.be_calls != want_calls) { F("accesscount", "%zu memory access(es), expected exactly %zu", S.be_calls, want_calls); return false; }
        if (want_calls == 1) {
            const BeCall &b = S.calls[0];
            const size_t ws = cf.mt == 16 ? 2 : 1;
            if (b.write != (f.type == T_WREQ) || b.addr != f.addr || b.n != f.bsize) { F("access", "memory %s(addr %u, n %zu), request was %s(addr %u, n %u)", b.write ? "write" : "read", b.addr, b.n, f.type == T_WREQ ? "write" : "read", f.addr, f.bsize); return false; }
            if (b.write && b.data != f.payload) { F("access", "memory write did not receive exactly the %zu payload octets", f.payload.size()); return false; }
            if (!b.write && b.room < b.n * ws) { F("capacity", "memory read of %zu words was handed a buffer with room for %zu octets", b.n, b.room); return false; }
            if (b.write && b.room < b.n * ws) { F("capacity", "memory write of %zu words was handed a payload region of %zu octets", b.n, b.room); return false; }
        }
        // --- replies
        if (!want_known) return true;
        if (S.replies.size() != want.size()) { F("replycount", "%zu reply frame(s) on the wire, expected %zu", S.replies.size(), want.size()); return false; }
        for (size_t i = 0; i < want.size(); ++i) if (S.replies[i] != want[i]) {
            Frame rf; Verdict rv = classify(S.replies[i], rf); Frame wf; classify(want[i], wf);
            F("reply", "reply %s (%s: type %d code %d opt %d seq %u addr %u bsize %u) differs from the prescribed %s (type %d code %d opt %d seq %u addr %u bsize %u)%s", hex_short(S.replies[i]).c_str(), verdict_name(rv), rf.type, rf.meta, rf.options, rf.seq, rf.addr, rf.bsize,
              hex_short(want[i]).c_str(), wf.type, wf.meta, wf.options, wf.seq, wf.addr, wf.bsize, tx_latitude ? " [tx latitude]" : "");
            return false;
        }
        (void)N;
        return true;
    }

    // ---- C06
    void exec_c06(const Json &plan, Ctx &c) {
        Cfg cf = cfg_of(plan);
        earlier_instance(c, plan); if (!c.viol.empty()) return;
        if (cf.block < sizeof(RPFrame) + 41) cf.block = sizeof(RPFrame) + 41;   // receive/transmit boundary cases belong to C09
        Wire c2s, s2c, dummy;
        const bool voidmem = plan.geti("nomem") != 0 && cf.mt == 16;
        Node srv(c, &c2s, &s2c, cf.serial, cf.mt, cf.block, cf.slab, cf.so, cf.ko, voidmem);
        srv.led.recycle = cf.recycle; srv.reconfigure(cf.confhist);
        Node cli(c, &s2c, &c2s, cf.serial, cf.mt, cf.block + 64, false, cf.so, cf.ko);   // the client emits requests and receives the replies
        (void)dummy; cli.reconfigure(cf.confhist >> 1);
        load_frag(srv.src, plan);
        cli.p.session.sequence = cf.seq0;
        COUNT(cf.serial ? "probe.serial" : "probe.tcp"); COUNT(cf.mt == 16 ? "probe.mem16" : "probe.mem8");
        struct Pending { Bytes raw; int verdict; uint32_t vaddr; uint64_t salt; int regcode; };
        std::vector<Pending> q; size_t qhead = 0;
        const size_t room = cf.block - sizeof(RPFrame);
        auto do_serve = [&]() -> bool {
            if (qhead >= q.size()) return true;
            Pending &pd = q[qhead++];
            Frame f; Verdict v = classify(pd.raw, f);
            srv.be.verdicts.clear(); srv.be.vpos = 0; srv.be.salt = pd.salt; srv.be.reg_code = pd.regcode;
            if (pd.regcode >= 0) { pd.verdict = ref_regaccess_code(pd.regcode); COUNT("probe.register_table_verdict_mapped"); }
            if (v == V_ACCEPT && f.is_request()) srv.be.verdicts.push_back({pd.verdict, pd.vaddr});
            Served S = serve(srv, f.payload.size());
            c.ops_done++;
            if (voidmem) { pd.verdict = RC_EUNMAPPED; pd.vaddr = f.addr; }
            Ctxt x; x.cf = &cf; x.verdict = pd.verdict; x.vaddr = pd.vaddr; x.voidmem = voidmem;
            if (!judge(c, srv, pd.raw, S, x, "served")) return false;
            // the requesting side receives and processes every reply: accepted by its receiver, and ignored (no access, nothing emitted)
            while (s2c.rpos < s2c.data.size()) {
                size_t c2s_before = c2s.data.size();
                Served C = serve(cli, 0);
                if (!C.recv_returned || !C.proc_returned || C.rc_recv < 0 || C.rc_proc < 0) { c.fail("client.recv", "the client could not receive the server's reply (recv %d, process %d)", C.rc_recv, C.rc_proc); return false; }
                if (C.error_id != 0) { c.fail("client.verdict", "the client's receiver rejects the server's reply with error id %d", C.error_id); return false; }
                if (C.be_calls != 0) { c.fail("client.executed", "processing a %s caused %zu memory access(es) on the client", C.got.type == T_META ? "meta message" : "response", C.be_calls); return false; }
                if (c2s.data.size() != c2s_before) { c.fail("client.replied", "processing a response or meta message emitted %zu octets", c2s.data.size() - c2s_before); return false; }
                if (C.live_after) { c.fail("client.leak", "client holds %zu block(s) after free", C.live_after); return false; }
                COUNT("probe.reply_received_and_ignored_by_client");
            }
            if (v == V_ACCEPT && f.is_request() && ((f.options & OPT_WS16) != 0) == (cf.mt == 16)) { counters().val[(size_t)counters().id((std::string(f.type == T_RREQ ? "probe.verdict_read_" : "probe.verdict_write_") + std::to_string(pd.verdict)).c_str())]++; if (f.bsize == 0) COUNT("probe.zero_block_size"); }
            else if (v == V_ACCEPT && f.is_request()) COUNT("probe.word_size_mismatch");
            else if (v == V_ACCEPT && f.is_response()) COUNT("probe.response_ignored");
            else if (v == V_ACCEPT) COUNT("probe.meta_ignored");
            return true;
        };
        const Json &ops = plan.get("ops");
        uint16_t last_seq = 0; bool have_seq = false;
        for (size_t oi = 0; oi < ops.size(); ++oi) {
            const Json &o = ops.at(oi);
            const std::string k = o.gets("k");
            if (k == "serve") { if (q.size() - qhead >= 3) COUNT("probe.pipelined_3_or_more"); if (!do_serve()) return; continue; }
            if (k == "rawframe") {
                Bytes raw = unhex(o.gets("raw")); if (raw.size() > room) raw.resize(room);
                Frame tf; bool bad = classify(raw, tf) != V_ACCEPT;
                if (!bad && tf.type == T_RREQ && (uint64_t)tf.bsize * (cf.mt == 16 ? 2 : 1) + (raw.size() - tf.payload.size()) > room) continue;   // a damaged size field may ask for more than fits: C09's subject
                if (bad) { COUNT("probe.reception_failure_inside_session"); c.faults_fired++; COUNT("fault.damaged_frame_in_session"); }
                Bytes w = frame_on(cf.serial, raw); c2s.data.insert(c2s.data.end(), w.begin(), w.end());
                Pending pd; pd.raw = raw; pd.regcode = -1; pd.verdict = (int)(o.geti("verdict") % 12); if (pd.verdict < 0) pd.verdict = 0; pd.vaddr = (uint32_t)o.geti("vaddr"); pd.salt = (uint64_t)o.geti("salt");
                q.push_back(pd); continue;
            }
            Frame f = frame_from(o.get("f"));
            // keep reads inside the transmit capacity for this property
            const size_t ws = cf.mt == 16 ? 2 : 1;
            {   // "block sizes 0..capacity": the data of a read is stored behind the request's own header in the block
                const size_t hdr = encode(f).size() - f.payload.size();
                const size_t cap = (room > hdr ? room - hdr : 0) / ws;
                if (f.type == T_RREQ && f.bsize > cap) f.bsize = (uint32_t)(cap - (cap ? (size_t)o.geti("salt") % (cap < 4 ? cap + 1 : 4) : 0));
                if (f.type == T_RREQ && f.bsize + 3 >= cap) COUNT("probe.read_at_or_near_capacity");
                if (f.type == T_RREQ && (uint64_t)f.bsize * ws >= 65536) COUNT("probe.read_of_64k_octets_or_more");
            }
            if (encode(f).size() > room) { size_t hl = encode(f).size() - f.payload.size(); size_t pl = room > hl ? room - hl : 0; pl -= pl % ((f.options & OPT_WS16) ? 2 : 1); f.payload.resize(pl); if (f.type != T_RREQ) f.bsize = (uint32_t)(pl / ((f.options & OPT_WS16) ? 2 : 1)); }
            Bytes raw;
            if (k == "client" && f.is_request()) {
                size_t before = c2s.data.size();
                bool w16 = (f.options & OPT_WS16) != 0;
                int rc;
                if (f.type == T_RREQ) rc = w16 ? regp_req_read16(&cli.p, f.addr, f.bsize) : regp_req_read8(&cli.p, f.addr, f.bsize);
                else if (w16) { std::vector<uint16_t> wbuf(f.payload.size() / 2 + 1); if (f.payload.size() >= 2) memcpy(wbuf.data(), f.payload.data(), f.payload.size() & ~(size_t)1); rc = regp_req_write16(&cli.p, f.addr, f.payload.size() / 2, wbuf.data()); }
                else rc = regp_req_write8(&cli.p, f.addr, f.payload.size(), f.payload.empty() ? (const uint8_t *)"" : f.payload.data());
                c.ev(EV_API, 10, (uint64_t)rc, c2s.data.size()); c.execs++;
                Bytes wire(c2s.data.begin() + (long)before, c2s.data.end());
                std::vector<Bytes> fr;
                if (rc < 0 || !deframe(cf.serial, wire, fr) || fr.size() != 1) return;   // emitter problems are C08's subject
                raw = fr[0];
                Frame sent; if (classify(raw, sent) == V_ACCEPT) { if (have_seq && sent.seq == 0 && last_seq == 0xffff) COUNT("probe.sequence_wrap"); last_seq = sent.seq; have_seq = true; }
                COUNT("probe.request_from_real_client");
            } else {
                raw = encode(f);
                Bytes w = frame_on(cf.serial, raw);
                c2s.data.insert(c2s.data.end(), w.begin(), w.end());
            }
            Pending pd; pd.raw = raw; pd.regcode = o.has("regcode") ? (int)(o.geti("regcode") & 7) : -1; pd.verdict = (int)(o.geti("verdict") % 12); if (pd.verdict < 0) pd.verdict = 0; pd.vaddr = (uint32_t)o.geti("vaddr"); pd.salt = (uint64_t)o.geti("salt");
            q.push_back(pd);
        }
        while (qhead < q.size()) if (!do_serve()) return;
        // after the last frame the wire is empty: the next receive must report end of data, holding nothing
        Served S = serve(srv, 0);
        if (S.recv_returned && S.rc_recv >= 0 && c2s.rpos == c2s.data.size() && S.have_frame) c.fail("idle.served", "regp_recv on an empty wire returned a frame");
        if (S.live_after) c.fail("leak.idle", "%zu block(s) held after regp_recv reported a channel error", S.live_after);
    }

    // ---- C07
    void exec_c07(const Json &plan, Ctx &c) {
        Cfg cf = cfg_of(plan);
        const Json &ops = plan.get("ops");
        const Json &only = plan.get("only");
        const bool persist = plan.geti("persist") != 0 && only.is_null();
        Wire sc2s, ss2c; std::unique_ptr<Node> shared;
        for (size_t oi = 0; oi < ops.size(); ++oi) {
            const Json &o = ops.at(oi);
            if (!only.is_null() && (size_t)only.geti("op") != oi) continue;
            const std::string k = o.gets("k");
            const bool alloc_fails = o.geti("allocfail") != 0;   // the frame arrives while the allocator is exhausted: classified from the fallback buffer
            auto deliver = [&](const Bytes &raw, const Json &pin, const char *site, bool expect_detected) -> bool {
                // usually every frame meets a fresh instance; a "persist" plan runs the documented loop on one instance instead: one RPMaybeFrame for all
                // turns, freed blocks handed out again with their content, and idle turns (nothing on the line) in between
                Wire c2s_local, s2c_local;
                std::unique_ptr<Node> fresh;
                const bool use_shared = persist && !strcmp(site, "raw");
                if (use_shared && !shared) { shared.reset(new Node(c, &sc2s, &ss2c, cf.serial, cf.mt, cf.block, cf.slab, cf.so, cf.ko)); shared->led.recycle = true; shared->reconfigure(cf.confhist); }
                if (!use_shared) { fresh.reset(new Node(c, &c2s_local, &s2c_local, cf.serial, cf.mt, cf.block, cf.slab, cf.so, cf.ko)); fresh->reconfigure(cf.confhist); }
                Node &srv = use_shared ? *shared : *fresh;
                Wire &c2s = use_shared ? sc2s : c2s_local;
                if (use_shared) { c2s.data.clear(); c2s.rpos = 0; }
                { Json none = Json::arr(); srv.led.fail.load(none); }   // an allocation failure scripted for an earlier frame that never allocated does not carry over
                if (alloc_fails) { Json one = Json::arr(); one.push(1); srv.led.fail.load(one); }
                load_frag(srv.src, plan);
                if (o.has("snkerr") && !strcmp(site, "raw")) { srv.snk.err_at = (int64_t)srv.snk.calls + (o.get("snkerr").ati(0, 0) & 31); srv.snk.err_code = HARD_ERRORS[(size_t)(o.get("snkerr").ati(1, 0) & 15) % N_HARD_ERRORS]; }
                Bytes w = frame_on(cf.serial, raw); c2s.data = w;
                c.set_pin(use_shared ? "" : pin.str());
                Frame f; Verdict v = classify(raw, f);
                Served S = serve(srv, f.payload.size());
                if (use_shared && o.geti("idle") && c.viol.empty()) {
                    // the next turn of the loop finds the line idle: reception fails, and whatever the previous turn left behind must not be executed or answered
                    Served I = serve(srv, 0);
                    COUNT("probe.idle_turn_after_a_frame");
                    if (I.recv_returned && I.rc_recv < 0) {
                        if (I.be_calls) { c.fail(std::string("executed.idle"), "after %s frame %s the line was idle, regp_recv returned %d, and the following regp_process caused %zu memory access(es)", verdict_name(v), hex_short(raw).c_str(), I.rc_recv, I.be_calls); return false; }
                        if (!I.replies.empty() || !I.reply_wire.empty()) { c.fail(std::string("reply.idle"), "a reply was sent although nothing had been received"); return false; }
                        if (I.unknown_free || I.live_after) { c.fail(std::string("ledger.idle"), "idle turn: %zu block(s) held, %llu unknown frees", I.live_after, (unsigned long long)I.unknown_free); return false; }
                    }
                }
                size_t nv = c.viol.size();
                Ctxt x; x.cf = &cf; x.alloc_failed = alloc_fails && !raw.empty();
                if (x.alloc_failed) COUNT("probe.classified_from_fallback_buffer");
                bool ok = judge(c, srv, raw, S, x, site);
                if (ok && expect_detected && v == V_ACCEPT) {
                    // CRC mathematics does not cover this corruption: recorded, enumeration continues (the receiver agreed with the reference)
                    c.fail(std::string("undetected.") + site + (pin.geti("crc") ? ".touches_checksum_word" : ".data_only"), "a catalogue corruption passes every check of the protocol document: %s (the independent reference accepts it too)", hex_short(raw).c_str());
                }
                if (!use_shared) for (size_t i = nv; i < c.viol.size(); ++i) c.viol[i].pin = pin;   // a frame that met a used instance cannot be replayed alone
                if (ok) switch (v) { case V_HEADERENC: COUNT("probe.class_header_encoding"); break; case V_HEADERCRC: COUNT("probe.class_header_crc"); break; case V_PAYLOADSIZE: COUNT("probe.class_payload_size"); if (f.is_request()) COUNT("probe.payload_fault_answered_with_error_response"); break; case V_PAYLOADCRC: COUNT("probe.class_payload_crc"); if (f.is_request()) COUNT("probe.payload_fault_answered_with_error_response"); break; default: COUNT("probe.raw_accept"); }
                return ok;
            };
            if (k == "raw") {
                Bytes raw = unhex(o.gets("raw"));
                if (raw.size() > cf.block - sizeof(RPFrame)) raw.resize(cf.block - sizeof(RPFrame));
                Json pin = Json::obj(); pin["op"] = (long long)oi; pin["kind"] = "raw";
                c.ops_done++; c.faults_fired++; COUNT("fault.arbitrary_octet_sequence");
                if (!cf.serial) COUNT("probe.raw_tcp");
                Frame f; classify(raw, f);
                if (raw.size() >= 12 && (f.options & OPT_PLCRC) && !(f.options & OPT_HDCRC)) COUNT("probe.option_plcrc_without_hdcrc");
                if (raw.size() >= 12 && (f.options & OPT_WS16) && (f.payload.size() & 1)) COUNT("probe.odd_payload_ws16");
                if (!deliver(raw, pin, "raw", false)) return;
                continue;
            }
            if (k == "big") {
                const bool ws16 = o.geti("ws16") != 0;
                int64_t units = o.geti("units", 65536); if (units < 1) units = 1; if (units > 140000) units = 140000;
                Frame f; f.type = o.geti("type") == T_RRESP ? T_RRESP : T_WREQ; f.seq = (uint16_t)o.geti("seed"); f.addr = (uint32_t)(o.geti("seed") * 2654435761u);
                f.options = (ws16 ? OPT_WS16 : 0) | (cf.serial ? (OPT_HDCRC | OPT_PLCRC) : (o.geti("plcrc") ? OPT_PLCRC : 0));
                f.payload = seeded_payload((uint64_t)o.geti("seed"), (size_t)units * (ws16 ? 2 : 1)); f.bsize = (uint32_t)units;
                Bytes raw = encode(f);
                const size_t hl = raw.size() - f.payload.size();
                if (o.has("flipat")) { size_t at = hl + (size_t)((uint64_t)o.geti("flipat") % f.payload.size()); raw[at] ^= (uint8_t)(1u << (o.geti("flipbit") & 7)); COUNT("fault.single_bit_flip"); c.faults_fired++; if (at - hl >= 131072) COUNT("probe.damage_beyond_64k_words"); }
                Json pin = Json::obj(); pin["op"] = (long long)oi; pin["kind"] = "big";
                c.ops_done++; COUNT("probe.frame_of_64k_octets_or_more");
                const size_t keep = cf.block; cf.block = raw.size() + sizeof(RPFrame) + 64 + (size_t)(o.geti("seed") & 63);
                bool ok = deliver(raw, pin, "big", false);
                cf.block = keep;
                if (!ok) return;
                continue;
            }
            if (k != "catalogue") continue;
            cf.serial = true;   // the corruption catalogue is about serial channels
            Frame f = frame_from(o.get("f"));
            f.options = (f.options & OPT_WS16) | OPT_HDCRC | (f.payload.empty() ? 0 : OPT_PLCRC);
            const Bytes good = encode(f);
            if (good.size() > cf.block - sizeof(RPFrame)) continue;
            c.ops_done++;
            const size_t L = good.size(), bits = L * 8;
            uint64_t salt = (uint64_t)o.geti("salt");
            // bit numbering = transmission order on a serial line (UART: least significant bit of each octet first), the order CRC-16/ARC is defined for
            auto flip = [](Bytes &b, size_t bit) { b[bit / 8] ^= (uint8_t)(1u << (bit % 8)); };
            const size_t ck_lo = 12 * 8, ck_hi = (12 + ((f.options & OPT_HDCRC) ? 2 : 0) + ((f.options & OPT_PLCRC) ? 2 : 0)) * 8;   // bit range of the checksum words
            auto one = [&](const char *kind, const char *fault, Bytes &&bad, int64_t a, int64_t b2, int64_t c3) -> bool {
                Json pin = Json::obj(); pin["op"] = (long long)oi; pin["kind"] = kind; pin["a"] = (long long)a; pin["b"] = (long long)b2; pin["c"] = (long long)c3;
                if (!strcmp(kind, "burst")) { size_t lo = (size_t)a, hi = (size_t)a + (size_t)b2; pin["crc"] = (lo < ck_hi && hi > ck_lo) ? 1 : 0; }
                c.faults_fired++; counters().val[(size_t)counters().id(fault)]++;
                return deliver(bad, pin, kind, true);
            };
            bool single = !only.is_null();
            std::string ok_ = single ? only.gets("kind") : "";
            int64_t oa = only.geti("a"), ob = only.geti("b"), oc = only.geti("c");
            // every single-bit flip (covers the first header word)
            for (size_t i = 0; i < bits; ++i) { if (single && !(ok_ == "flip1" && oa == (int64_t)i)) continue; Bytes b = good; flip(b, i); if (i < 16) COUNT("probe.header_word_flip"); COUNT("probe.flip1"); if (!one("flip1", "fault.single_bit_flip", std::move(b), (int64_t)i, 0, 0)) return; }
            // every two-bit flip inside the protected fields (everything behind the first header word)
            for (size_t i = 16; i < bits; ++i) for (size_t j = i + 1; j < bits; ++j) { if (single && !(ok_ == "flip2" && oa == (int64_t)i && ob == (int64_t)j)) continue; Bytes b = good; flip(b, i); flip(b, j); COUNT("probe.flip2"); if (!one("flip2", "fault.two_bit_flip", std::move(b), (int64_t)i, (int64_t)j, 0)) return; }
            // bursts of length 2..16 at every bit offset of the protected fields
            for (size_t len = 2; len <= 16; ++len) for (size_t off = 16; off + len <= bits; ++off) for (int pat = 0; pat < 2; ++pat) {
                if (single && !(ok_ == "burst" && oa == (int64_t)off && ob == (int64_t)len && oc == pat)) continue;
                if (pat == 1 && len == 2) continue;
                Bytes b = good; flip(b, off); flip(b, off + len - 1);
                uint64_t h = salt * 0x9e3779b97f4a7c15ULL + off * 1315423911u + len;
                for (size_t q = 1; q + 1 < len; ++q) { bool f1 = pat == 0 ? true : ((splitmix64(h) >> 17) & 1); if (f1) flip(b, off + q); }
                COUNT("probe.burst");
                if (!one("burst", "fault.burst_error", std::move(b), (int64_t)off, (int64_t)len, pat)) return;
            }
            // every truncation length, extensions by 1..4 octets
            for (size_t n = 0; n < L; ++n) { if (single && !(ok_ == "truncate" && oa == (int64_t)n)) continue; Bytes b(good.begin(), good.begin() + (long)n); COUNT("probe.truncate"); if (!one("truncate", "fault.truncation", std::move(b), (int64_t)n, 0, 0)) return; }
            for (size_t n = 1; n <= 4; ++n) for (int fill = 0; fill < 2; ++fill) { if (single && !(ok_ == "extend" && oa == (int64_t)n && ob == fill)) continue; Bytes b = good; for (size_t q = 0; q < n; ++q) b.push_back(fill ? (uint8_t)(splitmix64(salt) >> 8) : 0); COUNT("probe.extend"); if (good.size() + n > cf.block - sizeof(RPFrame)) continue; if (!one("extend", "fault.extension", std::move(b), (int64_t)n, fill, 0)) return; }
        }
        c.set_pin("");
    }

    // ---- C08
    void exec_c08(const Json &plan, Ctx &c) {
        Cfg cf = cfg_of(plan);
        earlier_instance(c, plan); if (!c.viol.empty()) return;
        Wire a2b, nil, b2a;
        size_t block = 70000;
        { const Json &ops0 = plan.get("ops"); for (size_t i = 0; i < ops0.size(); ++i) if (ops0.at(i).has("bigpl")) block = 300000; }
        Node A(c, &nil, &a2b, cf.serial, cf.mt, 256, false, false, cf.ko, plan.geti("nomem") != 0);   // emitter (nomem: a node that only ever emits need not attach memory)
        Node B(c, &a2b, &b2a, cf.serial, cf.mt, block, cf.slab, cf.so, false);          // peer receiver
        A.reconfigure(cf.confhist); B.reconfigure(cf.confhist >> 2);
        load_frag(B.src, plan);
        A.p.session.sequence = cf.seq0;
        uint16_t expect_seq = cf.seq0;
        const Json &ops = plan.get("ops");
        for (size_t oi = 0; oi < ops.size(); ++oi) {
            const Json &o = ops.at(oi);
            const std::string e = o.gets("e");
            auto F = [&](const std::string &rule, const char *fmt, ...) __attribute__((format(printf, 3, 4))) {
                char b[700]; va_list ap; va_start(ap, fmt); vsnprintf(b, sizeof b, fmt, ap); va_end(ap);
                c.fail(rule + "." + e, "emit#%zu %s (%s, mem%d): %s", oi, e.c_str(), cf.serial ? "serial" : "tcp", cf.mt, b);
            };
            if (e == "rechannel") {   // the channel (and memory, allocator) is attached again in the middle of the session: the session itself goes on
                A.reconfigure((unsigned)(o.geti("n") & 15)); COUNT("probe.channel_attached_again_mid_session"); c.ev(EV_API, 21, (uint64_t)o.geti("n"), 0); continue;
            }
            uint32_t addr = (uint32_t)o.geti("addr"); int64_t n64 = o.geti("n"); if (n64 < 0) n64 = 0;
            Bytes pl = unhex(o.gets("pl")); if (pl.size() > 30000) pl.resize(30000);
            if (o.has("bigpl") && block >= 300000) { int64_t bn = o.get("bigpl").ati(0, 65536); if (bn < 0) bn = 0; if (bn > 200000) bn = 200000; pl = seeded_payload((uint64_t)o.get("bigpl").ati(1, 0), (size_t)bn); if (pl.size() >= 65536) COUNT("probe.payload_of_64k_octets_or_more"); }
            Frame want; want.addr = addr; want.options = cf.serial ? OPT_HDCRC : 0;
            RPFrame rf; memset(&rf, (int)(plan.geti("dirt") & 0xff), sizeof rf);   // the request object a response is made for: only its type, sequence number and address mean anything here
            rf.header.type = (RPFrameType)(o.geti("ftype") == T_WREQ ? T_WREQ : T_RREQ); rf.header.sequence = (uint16_t)o.geti("fseq"); rf.header.address = addr;
            size_t before = a2b.data.size();
            int rc = 0; bool fin = true;
            const uint64_t snk_fired0 = A.snk.err_fired;
            if (o.has("snkerr")) { A.snk.err_at = (int64_t)A.snk.calls + (o.get("snkerr").ati(0, 0) & 63); int64_t ci = o.get("snkerr").ati(1, 0); A.snk.err_code = ci == 99 ? ENODATA : HARD_ERRORS[(size_t)(ci & 15) % N_HARD_ERRORS]; }
            std::vector<uint16_t> w16(pl.size() / 2 + 1); if (pl.size() >= 2) memcpy(w16.data(), pl.data(), pl.size() & ~(size_t)1);
            if (e == "req_read8" || e == "req_read16") {
                bool w = e == "req_read16"; uint32_t n = (uint32_t)n64;
                fin = WITH_BUDGET(c, 4096, rc = w ? regp_req_read16(&A.p, addr, n) : regp_req_read8(&A.p, addr, n));
                want.type = T_RREQ; want.seq = expect_seq++; want.bsize = n; if (w) want.options |= OPT_WS16;
                COUNT(w ? "probe.req_read16" : "probe.req_read8");
            } else if (e == "req_write8") {
                fin = WITH_BUDGET(c, 8 * pl.size() + 4096, rc = regp_req_write8(&A.p, addr, pl.size(), pl.empty() ? (const uint8_t *)"" : pl.data()));
                want.type = T_WREQ; want.seq = expect_seq++; want.bsize = (uint32_t)pl.size(); want.payload = pl; COUNT("probe.req_write8");
            } else if (e == "req_write16") {
                pl.resize(pl.size() & ~(size_t)1);
                fin = WITH_BUDGET(c, 8 * pl.size() + 4096, rc = regp_req_write16(&A.p, addr, pl.size() / 2, w16.data()));
                want.type = T_WREQ; want.seq = expect_seq++; want.bsize = (uint32_t)(pl.size() / 2); want.payload = pl; want.options |= OPT_WS16; COUNT("probe.req_write16");
            } else if (e == "ack") {
                bool rd = rf.header.type == RP_FRAME_READ_REQUEST;
                if (cf.mt == 16) pl.resize(pl.size() & ~(size_t)1);
                size_t words = rd ? pl.size() / (cf.mt == 16 ? 2 : 1) : 0;
                if (!rd) pl.clear();
                fin = WITH_BUDGET(c, 8 * pl.size() + 4096, rc = regp_resp_ack(&A.p, &rf, rd ? (cf.mt == 16 ? (const void *)w16.data() : (const void *)(pl.empty() ? (const uint8_t *)"" : pl.data())) : nullptr, words));
                want = response_for(Frame(), RC_ACK, 0, pl, cf.serial, cf.mt); want.type = rd ? T_RRESP : T_WRESP; want.seq = rf.header.sequence; want.addr = addr; want.bsize = (uint32_t)words;
                COUNT(pl.empty() ? "probe.resp_ack_empty" : "probe.resp_ack_payload");
            } else if (e == "err") {
                int code = (int)(o.geti("code") % 12); if (code < 1) code = 1; uint32_t arg = (uint32_t)o.geti("arg");
                switch (code) {
                case RC_EWORDSIZE: rc = regp_resp_ewordsize(&A.p, &rf); break; case RC_EPAYLOADCRC: rc = regp_resp_epayloadcrc(&A.p, &rf); break;
                case RC_EPAYLOADSIZE: rc = regp_resp_epayloadsize(&A.p, &rf); break; case RC_ERXOVERFLOW: rc = regp_resp_erxoverflow(&A.p, &rf, arg); break;
                case RC_ETXOVERFLOW: rc = regp_resp_etxoverflow(&A.p, &rf, arg); break; case RC_EBUSY: rc = regp_resp_ebusy(&A.p, &rf); break;
                case RC_EUNMAPPED: rc = regp_resp_eunmapped(&A.p, &rf, arg); break; case RC_EACCESS: rc = regp_resp_eaccess(&A.p, &rf, arg); break;
                case RC_ERANGE: rc = regp_resp_erange(&A.p, &rf, arg); break; case RC_EINVALID: rc = regp_resp_einvalid(&A.p, &rf, arg); break;
                default: rc = regp_resp_eio(&A.p, &rf); break;
                }
                Frame rq; rq.type = (int)rf.header.type; rq.seq = rf.header.sequence; rq.addr = addr;
                want = response_for(rq, code, arg, Bytes(), cf.serial, cf.mt);
                counters().val[(size_t)counters().id(("probe.resp_code_" + std::to_string(code)).c_str())]++;
            } else if (e == "meta") {
                int m = (int)(o.geti("metacode") == 2 ? 2 : 1);
                rc = regp_resp_meta(&A.p, (uint_least8_t)m); want = meta_frame(m, cf.serial); COUNT("probe.resp_meta");
            } else continue;
            c.ev(EV_API, 20, (uint64_t)(int64_t)rc, a2b.data.size()); c.ops_done++; c.execs++;
            if (!fin) { F("noprogress", "emitter did not return"); return; }
            A.snk.err_at = -1;
            if (A.snk.err_fired != snk_fired0) {
                // the channel sink failed once while the frame was being sent: what is on the wire is a torn frame. An emitter that nevertheless
                // reports success claims to have emitted a frame - and that frame is not the one the document prescribes
                COUNT("probe.emitter_sink_failed");
                if (rc >= 0) { F("wire", "the channel sink failed with %d while the frame was being sent (%zu octets reached the wire) and the emitter reported success (%d)", -A.snk.err_code, a2b.data.size() - before, rc); return; }
                a2b.data.resize(before);   // the torn frame is taken off the wire again, the session goes on
                if (e.rfind("req_", 0) == 0) expect_seq = A.p.session.sequence;   // whether a request that could not be sent uses up its number is not specified
                continue;
            }
            if (rc < 0) { F("result", "emitter returned %d", rc); return; }
            if (cf.serial && !want.payload.empty()) want.options |= OPT_PLCRC;
            if ((e.rfind("req_", 0) == 0) && want.seq == 0 && expect_seq == 1 && cf.seq0 != 0) COUNT("probe.sequence_wrap");
            Bytes wire(a2b.data.begin() + (long)before, a2b.data.end());
            Bytes wantraw = encode(want), wantwire = frame_on(cf.serial, wantraw);
            for (uint8_t x : want.payload) if (x == 0xc0 || x == 0xdb) { if (cf.serial) COUNT("probe.payload_with_slip_control_octets"); break; }
            if (!cf.serial && wantraw.size() >= 128) COUNT("probe.varint_prefix_2_octets");
            if (wire != wantwire) {
                size_t d = 0; while (d < wire.size() && d < wantwire.size() && wire[d] == wantwire[d]) ++d;
                F("wire", "octets on the wire differ from the document's encoding at offset %zu (got %zu octets %s, prescribed %zu octets %s)", d, wire.size(), hex_short(wire).c_str(), wantwire.size(), hex_short(wantwire).c_str());
                return;
            }
            // the library's own receiver must accept it and report the same fields
            Served S = serve(B, want.payload.size());
            if (!S.recv_returned || S.rc_recv < 0) { F("roundtrip", "peer regp_recv failed (%d)", S.rc_recv); return; }
            if (S.error_id != 0) { F("roundtrip", "peer's receiver rejects the frame with error id %d", S.error_id); return; }
            const Frame &g = S.got;
            if (g.type != want.type || g.options != want.options || g.meta != want.meta || g.seq != want.seq || g.addr != want.addr || g.bsize != want.bsize || g.payload != want.payload) {
                F("roundtrip", "peer reports type %d opt %d code %d seq %u addr %u bsize %u payload %zu; emitted type %d opt %d code %d seq %u addr %u bsize %u payload %zu", g.type, g.options, g.meta, g.seq, g.addr, g.bsize, g.payload.size(), want.type, want.options, want.meta, want.seq, want.addr, want.bsize, want.payload.size());
                return;
            }
            if (S.live_after) { F("leak", "peer holds %zu block(s) after free", S.live_after); return; }
            COUNT("probe.roundtrip_accepted");
            b2a.data.clear();
        }
    }

    // ---- C09
    void exec_c09(const Json &plan, Ctx &c) {
        Cfg cf = cfg_of(plan);
        earlier_instance(c, plan); if (!c.viol.empty()) return;
        Wire c2s, s2c;
        g_defalloc_next = cf.defalloc;
        Node srv(c, &c2s, &s2c, cf.serial, cf.mt, cf.block, cf.slab, cf.so, cf.ko);
        srv.led.recycle = cf.recycle; srv.reconfigure(cf.confhist);
        load_frag(srv.src, plan);
        if (plan.has("snk_err")) { srv.snk.err_at = plan.get("snk_err").ati(0, 0) & 1023; srv.snk.err_code = HARD_ERRORS[(size_t)(plan.get("snk_err").ati(1, 0) & 15) % N_HARD_ERRORS]; }
        srv.led.fail.load(plan.get("allocfail"));
        if (cf.slab) COUNT("probe.slab_allocator");
        if (cf.block <= sizeof(RPFrame) + 4) COUNT("probe.block_size_minimum");
        const size_t room = cf.block - sizeof(RPFrame);
        const Json &ops = plan.get("ops");
        struct Seg { Bytes raw; int verdict; uint64_t salt; size_t wire_end; bool eilseq = false; };
        std::vector<Seg> segs;
        for (size_t oi = 0; oi < ops.size() && oi < 12; ++oi) {
            const Json &o = ops.at(oi);
            Seg s; s.raw = unhex(o.gets("raw")); if (s.raw.size() > 70000) s.raw.resize(70000);
            if (o.has("bigf")) {   // a frame too large to spell out: header fields from the plan, payload regenerated from a seed, optional tail beyond the frame
                Frame f = frame_from(o.get("bigf")); const Json &bp = o.get("bigpl");
                int64_t bn = bp.ati(0, 0); if (bn < 0) bn = 0; if (bn > 300000) bn = 300000;
                const size_t u = (f.options & OPT_WS16) ? 2 : 1; bn -= bn % (int64_t)u;
                f.payload = seeded_payload((uint64_t)bp.ati(1, 0), (size_t)bn); f.bsize = (uint32_t)((size_t)bn / u);
                if (f.payload.empty()) f.options &= ~OPT_PLCRC; else if (cf.serial) f.options |= OPT_PLCRC;
                s.raw = encode(f);
                int64_t tail = bp.ati(2, 0); if (tail > 0 && tail < 4096) s.raw.resize(s.raw.size() + (size_t)tail, 0x55);
                if (s.raw.size() >= 65536) COUNT("probe.frame_of_64k_octets_or_more");
            }
            s.verdict = (int)(o.geti("verdict") % 12); if (s.verdict < 0) s.verdict = 0; s.salt = (uint64_t)o.geti("salt");
            if (o.gets("k") == "wire" && cf.serial) {
                // wire-level octets: split into what each regp_recv call will see (reference reading of RFC 1055:
                // END closes a frame; ESC followed by anything but ESC_END/ESC_ESC is an illegal sequence that ends the call)
                Bytes w = s.raw; if (w.size() > 4096) w.resize(4096);
                if (w.empty() || w.back() != 0xc0 || (w.size() >= 2 && w[w.size() - 2] == 0xdb)) { w.push_back(0x00); w.push_back(0xc0); }
                Bytes cur; size_t i = 0;
                while (i < w.size()) {
                    uint8_t x = w[i++];
                    Seg e; e.verdict = s.verdict; e.salt = s.salt;
                    if (x == 0xc0) { e.raw = cur; cur.clear(); e.wire_end = c2s.data.size() + i; segs.push_back(e); }
                    else if (x == 0xdb) {
                        uint8_t y = i < w.size() ? w[i++] : 0;
                        if (y == 0xdc) cur.push_back(0xc0); else if (y == 0xdd) cur.push_back(0xdb);
                        else { e.eilseq = true; cur.clear(); e.wire_end = c2s.data.size() + i; segs.push_back(e); }
                    } else cur.push_back(x);
                }
                c2s.data.insert(c2s.data.end(), w.begin(), w.end());
                c.faults_fired++; COUNT("fault.wire_level_garbage");
                continue;
            }
            Bytes w = frame_on(cf.serial, s.raw);
            c2s.data.insert(c2s.data.end(), w.begin(), w.end());
            s.wire_end = c2s.data.size();
            segs.push_back(s);
        }
        int64_t trunc = plan.geti("truncate_last");
        if (!cf.serial && trunc > 0 && !segs.empty() && !segs.back().raw.empty()) { size_t cut = std::min<size_t>((size_t)trunc, segs.back().raw.size()); c2s.data.resize(c2s.data.size() - cut); }
        else trunc = 0;
        if (plan.has("src_err")) { srv.src.err_pos = plan.get("src_err").ati(0, 0); srv.src.err_code = (int)plan.get("src_err").ati(1, EIO); if (srv.src.err_code <= 0 || srv.src.err_code == EINTR || srv.src.err_code == EAGAIN || srv.src.err_code == ENODATA) srv.src.err_code = EIO; if (srv.src.err_pos < 0) srv.src.err_pos = 0; }
        bool faulted = false;
        for (size_t si = 0; si < segs.size(); ++si) {
            Seg &sg = segs[si];
            Frame f; Verdict v = classify(sg.raw, f);
            srv.be.verdicts.clear(); srv.be.vpos = 0; srv.be.salt = sg.salt;
            srv.be.verdicts.push_back({sg.verdict, (uint32_t)(f.addr + 1)});
            uint64_t failed0 = srv.led.failed, allocs0 = srv.led.allocs;
            bool err_before = srv.src.err_fired;
            Served S = serve(srv, f.payload.size());
            c.ops_done++;
            auto F = [&](const std::string &rule, const char *fmt, ...) __attribute__((format(printf, 3, 4))) {
                char b[700]; va_list ap; va_start(ap, fmt); vsnprintf(b, sizeof b, fmt, ap); va_end(ap);
                c.fail(rule, "segment %zu %s (%s, mem%d, block %zu): %s", si, hex_short(sg.raw).c_str(), cf.serial ? "serial" : "tcp", cf.mt, cf.block, b);
            };
            if (!S.recv_returned || !S.proc_returned) { F("noprogress.stream", "%s did not return within the step budget", S.recv_returned ? "regp_process" : "regp_recv"); return; }
            if (S.unknown_free) { F("badfree.stream", "a pointer that is not a live allocator block was released"); return; }
            if (S.snk_failed) {
                // the channel sink failed once while this segment was being answered: the reply is lost, everything else still holds (see judge)
                faulted = true;
                const bool other_fault = sg.eilseq || (srv.src.err_fired && !err_before) || (trunc > 0 && si + 1 == segs.size());
                if (other_fault) {   // two faults in one turn: only the ledger and "nothing executed after a failed reception" are judged, then the stream is left
                    if (S.live_after != 0) { F("leak.channel_error", "%zu allocator block(s) are still held after a turn with channel faults", S.live_after); return; }
                    if (S.be_calls && S.rc_recv < 0) { F("executed.channel_error", "memory accessed although reception failed"); return; }
                    return;
                }
                Ctxt x0; x0.cf = &cf; x0.verdict = sg.verdict; x0.vaddr = (uint32_t)(f.addr + 1); x0.alloc_failed = srv.led.failed > failed0 && !sg.raw.empty();
                if (!judge(c, srv, sg.raw, S, x0, "stream")) return;
                continue;
            }
            if (sg.eilseq && !(srv.src.err_fired && !err_before)) {
                COUNT("probe.illegal_slip_sequence_on_the_wire");
                if (S.rc_recv != -EILSEQ) { F("eilseq.stream", "illegal SLIP escape on the wire: regp_recv returned %d (error id %d), expected -EILSEQ", S.rc_recv, S.error_id); return; }
                if (S.live_after != 0) { F("leak.eilseq", "regp_recv returned -EILSEQ and %zu allocator block(s) are still held", S.live_after); return; }
                if (S.be_calls) { F("executed.eilseq", "memory accessed although reception failed"); return; }
                if (!S.reply_wire.empty()) { F("reply.eilseq", "a reply was sent although regp_recv failed with a framing error"); return; }
                faulted = true;
                continue;
            }
            bool chan_err = (srv.src.err_fired && !err_before) || (trunc > 0 && si + 1 == segs.size());
            if (chan_err) {
                // the receiver returns the channel error and must have released its block itself
                COUNT("probe.channel_error_mid_frame"); faulted = true;
                if (S.rc_recv >= 0) { /* the error may fall between two frames on serial lines: then this frame was complete */ }
                if (S.live_after != 0) { F("leak.channel_error", "regp_recv returned %d and %zu allocator block(s) are still held", S.rc_recv, S.live_after); return; }
                if (S.be_calls && S.rc_recv < 0) { F("executed.channel_error", "memory accessed although reception failed"); return; }
                if (S.rc_recv < 0) return;   // the stream is broken from here on
            }
            if (S.rc_recv < 0) { F("recv.stream", "regp_recv returned %d without a channel fault", S.rc_recv); return; }
            bool alloc_failed = srv.led.failed > failed0;
            if (!alloc_failed && srv.led.allocs == allocs0 && !sg.raw.empty()) { F("alloc.stream", "no block was allocated for a non-empty frame"); return; }
            Ctxt x; x.cf = &cf; x.verdict = sg.verdict; x.vaddr = (uint32_t)(f.addr + 1); x.alloc_failed = alloc_failed && !sg.raw.empty();
            if (alloc_failed) faulted = true;
            if (!judge(c, srv, sg.raw, S, x, "stream")) return;
            // probes
            if (sg.raw.empty()) COUNT("probe.empty_frame"); else if (sg.raw.size() < 12) COUNT("probe.short_frame");
            if (sg.raw.size() + 1 == room) COUNT("probe.frame_len_room_minus_1"); else if (sg.raw.size() == room) COUNT("probe.frame_len_room"); else if (sg.raw.size() == room + 1) COUNT("probe.frame_len_room_plus_1");
            if (sg.raw.size() > room) COUNT("probe.rx_overflow");
            if (x.alloc_failed) { Bytes head(sg.raw.begin(), sg.raw.begin() + (long)std::min<size_t>(16, sg.raw.size())); Frame hf; Verdict hv = classify(head, hf); if (hv == V_HEADERENC || hv == V_HEADERCRC) COUNT("probe.alloc_failure_without_parsable_header"); else COUNT("probe.alloc_failure_with_parsable_header"); }
            if (v == V_ACCEPT && f.type == T_RREQ && sg.raw.size() <= room && !x.alloc_failed && ((f.options & OPT_WS16) != 0) == (cf.mt == 16)) {
                const size_t ws = cf.mt == 16 ? 2 : 1; uint64_t need = (uint64_t)f.bsize * ws;
                if (need + ws == room - room % ws) COUNT("probe.read_at_limit_minus_1"); else if (need == room - room % ws) COUNT("probe.read_at_limit"); else if (need == room - room % ws + ws) COUNT("probe.read_at_limit_plus_1");
                if (need > room) COUNT("probe.tx_overflow");
            }
            if (sg.raw.size() >= 12 && (f.options & OPT_WS16) && (f.payload.size() & 1)) COUNT("probe.odd_payload_ws16");
            if (faulted && v == V_ACCEPT && f.is_request() && S.be_calls == 1) COUNT("probe.served_after_fault");
        }
        // end of stream: one more receive reports the end of data and holds nothing
        Served S = serve(srv, 0);
        if (!S.recv_returned) { c.fail("noprogress.idle", "regp_recv on an exhausted wire did not return"); return; }
        if (S.live_after) c.fail("leak.idle", "regp_recv returned %d on an exhausted wire and %zu allocator block(s) are still held", S.rc_recv, S.live_after);
    }
};

}  // namespace

int main(int argc, char **argv) {
    RegpHarness h;
    return sim_main(argc, argv, h);
}
