// Driver shared by all harness binaries: worker pool, violation gate,
// minimisation, replay files, evidence, known findings.
#pragma once
#include <atomic>
#include <algorithm>
#include <cerrno>
#include <chrono>
#include <csignal>
#include <fcntl.h>
#include <functional>
#include <sys/mman.h>
#include <sys/stat.h>
#include <sys/wait.h>
#include <unistd.h>

#include "core.hpp"

// sanitizer configuration: classified exit code, no leak checking (the
// allocator ledger finds leaks exactly and replayably)
extern "C" __attribute__((used, visibility("default"))) const char *__asan_default_options() {
    return "exitcode=77:detect_leaks=0:abort_on_error=0:malloc_fill_byte=165:max_malloc_fill_size=4096:"
           "allocator_may_return_null=1:detect_stack_use_after_return=0:handle_abort=1";
}
extern "C" __attribute__((used, visibility("default"))) const char *__ubsan_default_options() {
    return "print_stacktrace=0:exitcode=77";
}

namespace drv {

struct Opts {
    std::string prop;
    Tier tier;
    uint64_t seed = 0;
    bool seed_given = false;
    int64_t runs = -1;
    int jobs = 16;
    std::string replay;
    int64_t dump = -1;
    int64_t det = -1;
    bool verbose = false;
    std::string root = "/verif";
    std::string findings, evidence_dir, replay_dir, tmp_dir;
    bool no_evidence = false;
    int shrink_budget = 400;
    bool stop_early = false;   // selftests: end the batch at the first violation
    int64_t runs_div = 1;      // the build-variant pass of ./check runs a fraction of the tier's runs
    std::string summary_out, variant_summary;   // a variant pass leaves its figures for the main pass to put into the evidence
};

struct Outcome {
    bool ok = true;          // child finished normally
    bool crashed = false;
    uint64_t fp = 0, steps = 0, execs = 0;
    std::vector<Violation> viol;
    std::string crash_tag, crash_msg;
    bool has_tag(const std::string &t) const {
        if (crashed) return crash_tag == t;
        for (auto &v : viol) if (v.tag == t) return true;
        return false;
    }
};

static Harness *H;
static Opts O;

static std::string slurp(const std::string &p) {
    std::string t; FILE *f = fopen(p.c_str(), "rb");
    if (!f) return t;
    char b[65536]; size_t n;
    while ((n = fread(b, 1, sizeof b, f)) > 0) t.append(b, n);
    fclose(f); return t;
}

// classify a sanitizer / signal death from the child's stderr
static void classify_crash(const std::string &prop, const std::string &err, int status, Outcome &o) {
    o.crashed = true; o.ok = false;
    std::string kind = "crash";
    std::string where = "unknown";
    if (WIFSIGNALED(status)) {
        int s = WTERMSIG(status);
        kind = s == SIGALRM ? "hang" : (s == SIGSEGV ? "sigsegv" : (s == SIGABRT ? "abort" : "signal" + std::to_string(s)));
    } else if (WIFEXITED(status)) {
        kind = "exit" + std::to_string(WEXITSTATUS(status));
    }
    size_t p = err.find("ERROR: AddressSanitizer: ");
    if (p != std::string::npos) {
        size_t q = p + strlen("ERROR: AddressSanitizer: ");
        size_t e = err.find_first_of(" \n", q);
        kind = "asan." + err.substr(q, e - q);
    } else if ((p = err.find("runtime error: ")) != std::string::npos) {
        size_t q = p + strlen("runtime error: ");
        size_t e = err.find('\n', q);
        std::string m = err.substr(q, e - q);
        // keep the first few words, drop numbers/addresses
        std::string k;
        int words = 0;
        for (char ch : m) {
            if (ch == ' ') { if (++words >= 4) break; k += '-'; }
            else if (isalpha((unsigned char)ch)) k += ch;
        }
        kind = "ubsan." + k;
        // location "path/file.c:LINE:COL: runtime error"
        size_t ls = err.rfind('\n', p); ls = (ls == std::string::npos) ? 0 : ls + 1;
        std::string loc = err.substr(ls, p - ls);
        size_t sl = loc.rfind('/'); if (sl != std::string::npos) loc = loc.substr(sl + 1);
        size_t c1 = loc.find(':'); size_t c2 = c1 == std::string::npos ? c1 : loc.find(':', c1 + 1);
        if (c2 != std::string::npos) loc = loc.substr(0, c2);
        if (!loc.empty()) where = loc;
    } else if (err.find("AddressSanitizer:DEADLYSIGNAL") != std::string::npos || err.find("SEGV") != std::string::npos) {
        kind = "asan.SEGV";
    }
    // first frame inside the library under test (path contains /src/ or /include/ufw/)
    size_t pos = 0;
    while ((pos = err.find("\n    #", pos)) != std::string::npos) {
        size_t eol = err.find('\n', pos + 1);
        std::string line = err.substr(pos + 1, eol - pos - 1);
        pos = eol == std::string::npos ? err.size() : eol;
        size_t in = line.find(" in ");
        if (in == std::string::npos) continue;
        bool lib = line.find("/src/") != std::string::npos || line.find("/include/ufw/") != std::string::npos;
        if (line.find("/verif/sim/") != std::string::npos) lib = false;
        if (!lib) continue;
        size_t fs = in + 4, fe = line.find(' ', fs);
        where = line.substr(fs, fe - fs);
        break;
    }
    o.crash_tag = prop + ":" + kind + "." + where;
    // message: first 3 lines of the report
    size_t b = err.find("ERROR: ");
    if (b == std::string::npos) b = err.find("runtime error");
    if (b == std::string::npos) b = 0;
    o.crash_msg = err.substr(b, 300);
    for (auto &ch : o.crash_msg) if (ch == '\n') ch = ' ';
}

static Json outcome_json(const Ctx &c) {
    Json j = Json::obj();
    j["fp"] = u64hex(c.fp);
    j["steps"] = c.steps;
    j["execs"] = c.execs;
    Json v = Json::arr();
    for (auto &x : c.viol) { Json e = Json::obj(); e["tag"] = x.tag; e["msg"] = x.msg; if (!x.pin.is_null()) e["pin"] = x.pin; v.push(e); }
    j["viol"] = v;
    return j;
}

// Execute one plan in a forked child (fresh copy of the driver's address
// space); sanitizer reports and signals are captured and classified.
// seconds after which a run counts as hung (VERIF_HANG_SECONDS overrides the harness's figure, for diagnosis)
static unsigned hang_limit(const Json &plan) { const char *e = getenv("VERIF_HANG_SECONDS"); if (e && atoi(e) > 0) return (unsigned)atoi(e); return H->time_limit(plan); }
static Outcome evaluate(const Json &plan, bool verbose = false) {
    Outcome o;
    int pfd[2];
    if (pipe(pfd) != 0) { perror("pipe"); exit(2); }
    std::string errtmpl = O.tmp_dir + "/tmp-err-XXXXXX";
    std::vector<char> errbuf(errtmpl.begin(), errtmpl.end()); errbuf.push_back(0);
    char *errpath = errbuf.data();
    int efd = mkstemp(errpath);
    if (efd < 0) { perror("mkstemp"); exit(2); }
    fflush(stdout); fflush(stderr);
    pid_t pid = fork();
    if (pid < 0) { perror("fork"); exit(2); }
    if (pid == 0) {
        close(pfd[0]);
        if (!verbose) dup2(efd, 2);
        alarm(hang_limit(plan.get("plan")));
        Ctx c; c.prop = plan.gets("property", O.prop); c.verbose = verbose;
        H->exec(plan.get("plan"), c);
        std::string t = outcome_json(c).str();
        size_t off = 0;
        while (off < t.size()) { ssize_t w = write(pfd[1], t.data() + off, t.size() - off); if (w <= 0) break; off += (size_t)w; }
        _exit(0);
    }
    close(pfd[1]);
    std::string t; char b[65536]; ssize_t n;
    while ((n = read(pfd[0], b, sizeof b)) > 0) t.append(b, (size_t)n);
    close(pfd[0]);
    int status = 0;
    while (waitpid(pid, &status, 0) < 0 && errno == EINTR) {}
    close(efd);
    std::string err = slurp(errpath);
    unlink(errpath);
    if (WIFEXITED(status) && WEXITSTATUS(status) == 0 && !t.empty()) {
        try {
            Json j = Json::parse(t);
            o.fp = hexu64(j.gets("fp")); o.steps = (uint64_t)j.geti("steps"); o.execs = (uint64_t)j.geti("execs");
            const Json &v = j.get("viol");
            for (size_t k = 0; k < v.size(); ++k)
                o.viol.push_back(Violation{v.at(k).gets("tag"), v.at(k).gets("msg"), v.at(k).get("pin")});
        } catch (...) { o.ok = false; }
    } else {
        classify_crash(plan.gets("property", O.prop), err, status, o);
    }
    return o;
}

// which build of the library and of the header macros this binary holds: the library's assert()s are compiled in ("assertions") or out ("ndebug")
#if defined(NDEBUG) && !defined(UFW_USE_BUILTIN_SWAP)
static const char *const BUILD_VARIANT = "ndebug+portable-swap";   // the twin ./check builds: release build, CMake option UFW_USE_BUILTIN_SWAP off
#elif defined(NDEBUG)
static const char *const BUILD_VARIANT = "ndebug";
#else
static const char *const BUILD_VARIANT = "assertions";
#endif

static Json make_case(const std::string &prop, uint64_t seed, uint64_t idx, const Json &plan) {
    Json j = Json::obj();
    j["property"] = prop;
    j["harness"] = H->name();
    j["seed"] = (long long)seed;
    j["index"] = (long long)idx;
    j["build"] = BUILD_VARIANT;
    j["plan"] = plan;
    return j;
}

// ---------------------------------------------------------------- minimisation
// Generic structural shrinker over the plan JSON: ddmin on every array,
// then greedy simplification of integers, keeping only candidates that fail
// with the same violation tag.
struct Shrinker {
    std::string tag;
    int budget;
    int evals = 0;
    Json best;

    bool still_fails(const Json &cand) {
        if (evals >= budget) return false;
        ++evals;
        Outcome o = evaluate(cand);
        return o.has_tag(tag);
    }
    // collect pointers to all arrays / ints inside plan, in deterministic order
    static void walk(Json &j, std::vector<Json *> &arrs, std::vector<Json *> &ints, std::vector<Json *> &strs) {
        if (j.kind == Json::ARR) { arrs.push_back(&j); for (auto &e : j.a) walk(e, arrs, ints, strs); }
        else if (j.kind == Json::OBJ) { for (auto &p : j.o) walk(p.second, arrs, ints, strs); }
        else if (j.kind == Json::INT) ints.push_back(&j);
        else if (j.kind == Json::STR) strs.push_back(&j);
    }
    bool pass_arrays() {
        bool progress = false;
        for (size_t ai = 0;; ++ai) {
            std::vector<Json *> arrs, ints, strs;
            walk(best["plan"], arrs, ints, strs);
            if (ai >= arrs.size()) break;
            size_t n = arrs[ai]->a.size();
            if (n == 0) continue;
            size_t chunk = n;
            while (chunk >= 1) {
                bool removed_any = false;
                for (size_t start = 0; start < arrs[ai]->a.size();) {
                    Json cand = best;
                    std::vector<Json *> a2, i2, s2;
                    walk(cand["plan"], a2, i2, s2);
                    Json &arr = *a2[ai];
                    size_t end = std::min(start + chunk, arr.a.size());
                    arr.a.erase(arr.a.begin() + (long)start, arr.a.begin() + (long)end);
                    if (still_fails(cand)) {
                        best = cand; removed_any = true; progress = true;
                        std::vector<Json *> a3, i3, s3;
                        walk(best["plan"], a3, i3, s3);
                        arrs = a3;
                        if (ai >= arrs.size()) return progress;
                    } else start += chunk;
                    if (evals >= budget) return progress;
                }
                if (chunk == 1 && !removed_any) break;
                chunk = chunk > 1 ? chunk / 2 : (removed_any ? 1 : 0);
                if (chunk == 0) break;
            }
        }
        return progress;
    }
    bool pass_ints() {
        bool progress = false;
        for (size_t ii = 0;; ++ii) {
            std::vector<Json *> arrs, ints, strs;
            walk(best["plan"], arrs, ints, strs);
            if (ii >= ints.size()) break;
            int64_t cur = ints[ii]->i;
            if (cur == 0) continue;
            std::vector<int64_t> tries = {0, 1, cur / 2, cur - 1};
            if (cur < 0) tries = {0, -1, cur / 2, cur + 1};
            for (int64_t t : tries) {
                if (t == cur) continue;
                if ((cur > 0 && (t < 0 || t >= cur)) || (cur < 0 && (t > 0 || t <= cur))) continue;
                Json cand = best;
                std::vector<Json *> a2, i2, s2;
                walk(cand["plan"], a2, i2, s2);
                i2[ii]->i = t;
                if (still_fails(cand)) { best = cand; progress = true; break; }
                if (evals >= budget) return progress;
            }
        }
        return progress;
    }
    bool pass_strs() {  // hex payload strings: try shortening / zeroing
        bool progress = false;
        for (size_t si = 0;; ++si) {
            std::vector<Json *> arrs, ints, strs;
            walk(best["plan"], arrs, ints, strs);
            if (si >= strs.size()) break;
            const std::string cur = strs[si]->s;
            bool hexlike = !cur.empty() && cur.size() % 2 == 0 && cur.find_first_not_of("0123456789abcdef") == std::string::npos;
            if (!hexlike || cur.size() < 2) continue;
            std::vector<std::string> tries;
            tries.push_back(cur.substr(0, (cur.size() / 4) * 2));
            tries.push_back(cur.substr(0, cur.size() - 2));
            tries.push_back(std::string(cur.size(), '0'));
            for (auto &t : tries) {
                if (t == cur) continue;
                Json cand = best;
                std::vector<Json *> a2, i2, s2;
                walk(cand["plan"], a2, i2, s2);
                s2[si]->s = t;
                if (still_fails(cand)) { best = cand; progress = true; break; }
                if (evals >= budget) return progress;
            }
        }
        return progress;
    }
    Json run(const Json &start) {
        best = start;
        for (int round = 0; round < 6 && evals < budget; ++round) {
            bool p = pass_arrays();
            p |= pass_ints();
            p |= pass_strs();
            if (!p) break;
        }
        return best;
    }
};

// ---------------------------------------------------------------- shared memory between driver and workers
struct Slot {
    std::atomic<uint64_t> inflight;  // index being executed (+1; 0 = none)
    std::atomic<uint64_t> done;      // runs completed by this worker
    char pin[512];
};
struct DistinctTable {
    // open-addressing set in shared memory, sized from the number of runs (power of two >= 2 * runs, 2^20 .. 2^27 entries; MAP_NORESERVE)
    size_t N;
    std::atomic<uint64_t> count;
    std::atomic<uint64_t> overflow;
    std::atomic<uint64_t> tab[1];
    static size_t entries_for(uint64_t runs) { size_t n = (size_t)1 << 20; while (n < 2 * runs && n < ((size_t)1 << 27)) n <<= 1; return n; }
    static size_t bytes_for(size_t n) { return sizeof(DistinctTable) + n * sizeof(std::atomic<uint64_t>); }
    void insert(uint64_t k) {
        k |= 1;
        if (count.load(std::memory_order_relaxed) > N / 4 * 3) { overflow.store(1); return; }
        size_t i = (size_t)((k * 0x9e3779b97f4a7c15ULL) >> 37) & (N - 1);
        for (;;) {
            uint64_t cur = tab[i].load(std::memory_order_relaxed);
            if (cur == k) return;
            if (cur == 0) {
                uint64_t exp = 0;
                if (tab[i].compare_exchange_strong(exp, k)) { count.fetch_add(1); return; }
                if (exp == k) return;
            }
            i = (i + 1) & (N - 1);
        }
    }
};

struct WorkerResult {
    std::map<std::string, uint64_t> counters;
    std::map<std::string, std::set<uint64_t>> states;
    std::map<std::string, std::pair<uint64_t, Json>> first_viol;  // tag -> (min idx, pin)
    std::map<std::string, std::string> viol_msg;
    uint64_t evaluations = 0, execs = 0, steps = 0, nontrivial = 0, faults = 0, det_mismatch = 0;
};

static void merge(WorkerResult &into, const Json &j) {
    const Json &c = j.get("counters");
    for (auto &p : c.o) into.counters[p.first] += (uint64_t)p.second.asi();
    const Json &s = j.get("states");
    for (auto &p : s.o) for (auto &e : p.second.a) into.states[p.first].insert((uint64_t)e.asi());
    into.evaluations += (uint64_t)j.geti("evaluations");
    into.execs += (uint64_t)j.geti("execs");
    into.steps += (uint64_t)j.geti("steps");
    into.nontrivial += (uint64_t)j.geti("nontrivial");
    into.faults += (uint64_t)j.geti("faults");
    into.det_mismatch += (uint64_t)j.geti("det_mismatch");
}

static Json worker_stats(uint64_t evaluations, uint64_t execs, uint64_t steps, uint64_t nontrivial, uint64_t faults, uint64_t detm) {
    Json j = Json::obj();
    Json c = Json::obj();
    for (size_t i = 0; i < counters().names.size(); ++i) c[counters().names[i]] = (long long)counters().val[i];
    j["counters"] = c;
    Json s = Json::obj();
    for (auto &p : statesets().sets) { Json a = Json::arr(); for (uint64_t k : p.second) a.push((long long)k); s[p.first] = a; }
    j["states"] = s;
    j["evaluations"] = (long long)evaluations; j["execs"] = (long long)execs; j["steps"] = (long long)steps;
    j["nontrivial"] = (long long)nontrivial; j["faults"] = (long long)faults; j["det_mismatch"] = (long long)detm;
    return j;
}

static Json gen_plan(uint64_t idx) {
    Rng r(run_seed(O.seed, O.prop, idx));
    return H->gen(O.prop, r, O.tier, idx);
}

// worker body: executes indices start, start+W, ... < total
static void worker_loop(int w, int W, uint64_t start_k, uint64_t total, Slot *slot, DistinctTable *dt, int outfd) {
    uint64_t evaluations = 0, execs = 0, steps = 0, nontrivial = 0, faults = 0, detm = 0;
    FILE *out = fdopen(outfd, "w");
    for (uint64_t k = start_k;; ++k) {
        uint64_t idx = (uint64_t)w + k * (uint64_t)W;
        if (idx >= total) break;
        slot->pin[0] = 0;
        slot->inflight.store(idx + 1);
        Json plan = gen_plan(idx);
        if (O.runs_div > 1 && H->time_limit(plan) > 60) continue;   // the twin build's pass leaves the plans that take minutes to the main pass
        Ctx c; c.prop = O.prop; c.pin_slot = slot->pin; c.pin_slot_size = sizeof slot->pin;
        alarm(2 * hang_limit(plan));
        H->exec(plan, c);
        alarm(0);
        ++evaluations; execs += c.execs ? c.execs : 1; steps += c.steps; faults += c.faults_fired;
        if (H->nontrivial(c)) { ++nontrivial; dt->insert(c.fp); }
        // in-process determinism gate on a sample of runs
        if ((idx < 200 || (idx & 1023) == 0) && H->time_limit(plan) <= 60) {
            Ctx c2; c2.prop = O.prop;
            // counters must not be double counted: snapshot / restore
            std::vector<uint64_t> snap = counters().val;
            H->exec(plan, c2);
            counters().val = snap;
            if (c2.fp != c.fp || c2.viol.size() != c.viol.size()) {
                ++detm;
                fprintf(out, "D %llu\n", (unsigned long long)idx);
            }
        }
        std::set<std::string> seen;
        for (auto &v : c.viol) {
            if (!seen.insert(v.tag).second) continue;
            Json e = Json::obj(); e["idx"] = (long long)idx; e["tag"] = v.tag; e["msg"] = v.msg;
            if (!v.pin.is_null()) e["pin"] = v.pin;
            fprintf(out, "V %s\n", e.str().c_str());
            fflush(out);
        }
        slot->done.store(k + 1);
        slot->inflight.store(0);
    }
    fprintf(out, "S %s\n", worker_stats(evaluations, execs, steps, nontrivial, faults, detm).str().c_str());
    fflush(out);
    _exit(0);
}

struct Known { std::string status, property, tag, what, commit; };
static std::vector<Known> load_known() {
    std::vector<Known> v; Json j;
    if (!Json::load(O.findings, j)) return v;
    const Json &f = j.get("findings");
    for (size_t i = 0; i < f.size(); ++i) {
        const Json &e = f.at(i);
        v.push_back(Known{e.gets("status"), e.gets("property"), e.gets("tag"), e.gets("what"), e.gets("commit")});
    }
    return v;
}

static int do_replay(const std::string &path) {
    Json j;
    if (!Json::load(path, j)) { fprintf(stderr, "cannot read replay file %s\n", path.c_str()); return 2; }
    if (!j.has("plan")) { fprintf(stderr, "replay file has no plan\n"); return 2; }
    std::string prop = j.gets("property", O.prop);
    O.prop = prop;
    if (j.has("build") && j.gets("build") != BUILD_VARIANT) {
        fprintf(stderr, "replay file was recorded with the '%s' build, this binary is the '%s' build: replay it through ./check, which picks the binary\n", j.gets("build").c_str(), BUILD_VARIANT);
        return 2;
    }
    printf("replay: harness=%s property=%s expect_tag=%s\n", H->name(), prop.c_str(), j.gets("tag", "-").c_str());
    Outcome a = evaluate(j, O.verbose);
    Outcome b = evaluate(j, false);
    auto show = [&](const Outcome &o) {
        if (o.crashed) printf("  crash tag=%s msg=%s\n", o.crash_tag.c_str(), o.crash_msg.c_str());
        for (auto &v : o.viol) printf("  violation tag=%s msg=%s\n", v.tag.c_str(), v.msg.c_str());
        printf("  fingerprint=%s steps=%llu execs=%llu\n", u64hex(o.fp).c_str(), (unsigned long long)o.steps, (unsigned long long)o.execs);
    };
    show(a);
    if (a.crashed != b.crashed || a.fp != b.fp || a.viol.size() != b.viol.size() || (a.crashed && a.crash_tag != b.crash_tag)) {
        printf("HARNESS-NONDETERMINISM: two executions of the replay file differ\n");
        show(b);
        return 2;
    }
    bool bad = a.crashed || !a.viol.empty();
    if (bad) {
        // known findings do not turn a replay green: replay reports what happens
        printf("VIOLATION property=%s replay=%s\n", prop.c_str(), path.c_str());
        return 1;
    }
    printf("replay: property held\n");
    return 0;
}

static std::string sanitize_tag(const std::string &t) {
    std::string r;
    for (char c : t) r += (isalnum((unsigned char)c) || c == '.' || c == '-' || c == '_') ? c : '_';
    return r;
}

static int run_batch() {
    using clk = std::chrono::steady_clock;
    auto t0 = clk::now();
    uint64_t total = O.runs >= 0 ? (uint64_t)O.runs : H->runs(O.prop, O.tier);
    if (O.runs_div > 1 && total > 0) { total /= (uint64_t)O.runs_div; if (!total) total = 1; }
    int W = O.jobs < 1 ? 1 : O.jobs;
    if ((uint64_t)W > total) W = (int)(total ? total : 1);
    printf("sim: harness=%s build=%s property=%s tier=%s VERIF_SEED=%llu runs=%llu workers=%d\n", H->name(), BUILD_VARIANT, O.prop.c_str(),
           O.tier.thorough() ? "thorough" : "quick", (unsigned long long)O.seed, (unsigned long long)total, W);
    fflush(stdout);

    Slot *slots = (Slot *)mmap(nullptr, sizeof(Slot) * (size_t)W, PROT_READ | PROT_WRITE, MAP_SHARED | MAP_ANONYMOUS, -1, 0);
    const size_t dtn = DistinctTable::entries_for(total);
    DistinctTable *dt = (DistinctTable *)mmap(nullptr, DistinctTable::bytes_for(dtn), PROT_READ | PROT_WRITE, MAP_SHARED | MAP_ANONYMOUS | MAP_NORESERVE, -1, 0);
    if (slots == MAP_FAILED || dt == MAP_FAILED) { perror("mmap"); return 2; }
    dt->N = dtn;

    struct WState { pid_t pid = -1; int fd = -1; std::string buf; bool finished = false; };
    std::vector<WState> ws((size_t)W);
    WorkerResult R;
    struct Crash { uint64_t idx; std::string pin; };
    std::vector<Crash> crashes;
    bool aborted = false;

    auto spawn = [&](int w, uint64_t start_k) {
        int pfd[2];
        if (pipe(pfd) != 0) { perror("pipe"); exit(2); }
        fflush(stdout); fflush(stderr);
        pid_t pid = fork();
        if (pid < 0) { perror("fork"); exit(2); }
        if (pid == 0) {
            close(pfd[0]);
            for (auto &o : ws) if (o.fd >= 0) close(o.fd);
            int dn = open("/dev/null", O_WRONLY);
            if (dn >= 0 && !O.verbose) dup2(dn, 2);
            worker_loop(w, W, start_k, total, &slots[w], dt, pfd[1]);
            _exit(0);
        }
        close(pfd[1]);
        ws[(size_t)w].pid = pid; ws[(size_t)w].fd = pfd[0]; ws[(size_t)w].buf.clear(); ws[(size_t)w].finished = false;
    };
    for (int w = 0; w < W; ++w) { new (&slots[w]) Slot(); slots[w].inflight = 0; slots[w].done = 0; spawn(w, 0); }

    auto handle_line = [&](const std::string &line) {
        if (line.size() < 2) return;
        if (line[0] == 'S') { try { merge(R, Json::parse(line.substr(2))); } catch (...) {} }
        else if (line[0] == 'V') {
            try {
                Json e = Json::parse(line.substr(2));
                std::string tag = e.gets("tag"); uint64_t idx = (uint64_t)e.geti("idx");
                auto it = R.first_viol.find(tag);
                if (it == R.first_viol.end() || idx < it->second.first) { R.first_viol[tag] = {idx, e.get("pin")}; R.viol_msg[tag] = e.gets("msg"); }
            } catch (...) {}
        } else if (line[0] == 'D') { R.det_mismatch++; }
    };

    std::vector<Known> known_early = load_known();
    int live = W;
    while (live > 0) {
        if (O.stop_early) {   // selftests: end the batch at the first violation that is not a recorded known finding
            bool fresh = false;
            for (auto &kv : R.first_viol) { bool k = false; for (auto &kn : known_early) if (kn.status == "known" && kn.property == O.prop && kn.tag == kv.first) k = true; if (!k) fresh = true; }
            if (fresh) { aborted = true; break; }
        }
        fd_set rf; FD_ZERO(&rf); int mx = -1;
        for (auto &w : ws) if (w.fd >= 0) { FD_SET(w.fd, &rf); mx = std::max(mx, w.fd); }
        if (mx < 0) break;
        struct timeval tv = {1, 0};
        int rc = select(mx + 1, &rf, nullptr, nullptr, &tv);
        if (rc < 0 && errno != EINTR) { perror("select"); break; }
        for (int w = 0; w < W; ++w) {
            WState &s = ws[(size_t)w];
            if (s.fd < 0 || !FD_ISSET(s.fd, &rf)) continue;
            char b[65536];
            ssize_t n = read(s.fd, b, sizeof b);
            if (n > 0) {
                s.buf.append(b, (size_t)n);
                size_t p;
                while ((p = s.buf.find('\n')) != std::string::npos) {
                    std::string line = s.buf.substr(0, p); s.buf.erase(0, p + 1);
                    if (line[0] == 'S') s.finished = true;
                    handle_line(line);
                }
                continue;
            }
            // EOF: worker ended
            close(s.fd); s.fd = -1;
            int status = 0;
            while (waitpid(s.pid, &status, 0) < 0 && errno == EINTR) {}
            if (s.finished) { --live; continue; }
            // died inside a run
            uint64_t inflight = slots[w].inflight.load();
            uint64_t done_k = slots[w].done.load();
            if (inflight) {
                crashes.push_back(Crash{inflight - 1, std::string(slots[w].pin)});
                done_k = (inflight - 1 - (uint64_t)w) / (uint64_t)W + 1;
            }
            if (crashes.size() >= 64 || O.stop_early) { aborted = true; --live; continue; }
            slots[w].inflight = 0;
            spawn(w, done_k);
        }
    }
    if (aborted) for (auto &w : ws) if (w.fd >= 0) { kill(w.pid, SIGKILL); close(w.fd); waitpid(w.pid, nullptr, 0); w.fd = -1; }

    double wall_batch = std::chrono::duration<double>(clk::now() - t0).count();

    // sampled runs whose second execution in the same process differed from the first: judged after the violations (below). When violations
    // were found and each of them reproduces identically in fresh processes, the difference is the library carrying state from one run into
    // the next (a file-scope object where a per-call one belongs) - which is what those violations then show; without any it is a harness error.

    // ---- crashes: evaluate in a fresh child to obtain the classified tag
    std::sort(crashes.begin(), crashes.end(), [](const Crash &a, const Crash &b) { return a.idx < b.idx; });
    for (auto &cr : crashes) {
        Json plan = gen_plan(cr.idx);
        Json pc = plan;
        if (!cr.pin.empty()) { try { pc["only"] = Json::parse(cr.pin); } catch (...) {} }
        Json cs = make_case(O.prop, O.seed, cr.idx, pc);
        Outcome o = evaluate(cs);
        if (!o.crashed && o.viol.empty() && !cr.pin.empty()) { cs = make_case(O.prop, O.seed, cr.idx, plan); o = evaluate(cs); pc = plan; }
        std::string tag = o.crashed ? o.crash_tag : (o.viol.empty() ? O.prop + ":crash.unreproducible" : o.viol[0].tag);
        auto it = R.first_viol.find(tag);
        if (it == R.first_viol.end() || cr.idx < it->second.first) {
            R.first_viol[tag] = {cr.idx, pc.get("only")};
            R.viol_msg[tag] = o.crashed ? o.crash_msg : (o.viol.empty() ? "worker died but the plan does not crash in a fresh process" : o.viol[0].msg);
        }
    }

    // ---- violations: gate, minimise, write replay, confirm in a fresh process
    std::vector<Known> known = load_known();
    int unknown_violations = 0, known_hits = 0, harness_errors = 0;
    int carried = 0;   // violations seen by a worker that do not occur when the plan runs alone in a fresh process: state carried over from an earlier run
    std::vector<std::string> carried_lines;
    mkdir(O.replay_dir.c_str(), 0755);
    int reported = 0;
    for (auto &kv : R.first_viol) {
        const std::string &tag = kv.first;
        uint64_t idx = kv.second.first;
        const Known *kn = nullptr;
        for (auto &k : known) if (k.status == "known" && k.property == O.prop && k.tag == tag) kn = &k;
        if (tag.find("crash.unreproducible") != std::string::npos) {
            printf("HARNESS-ERROR: worker died at run %llu but the plan does not fail in a fresh process\n", (unsigned long long)idx);
            ++harness_errors; continue;
        }
        if (++reported > 12) { printf("note: further violation tag %s (first at run %llu) not minimised\n", tag.c_str(), (unsigned long long)idx); if (!kn) ++unknown_violations; continue; }
        Json plan = gen_plan(idx);
        if (!kv.second.second.is_null()) plan["only"] = kv.second.second;
        Json cs = make_case(O.prop, O.seed, idx, plan);
        cs["tag"] = tag;
        Outcome a = evaluate(cs), b = evaluate(cs);
        if (!a.has_tag(tag) || !b.has_tag(tag) || a.fp != b.fp) {
            char lb[600]; snprintf(lb, sizeof lb, "run %llu tag %s does not reproduce identically in fresh processes (fp %s vs %s)", (unsigned long long)idx, tag.c_str(), u64hex(a.fp).c_str(), u64hex(b.fp).c_str());
            if (a.fp == b.fp && a.viol.empty() && b.viol.empty() && !a.crashed && !b.crashed) { ++carried; carried_lines.push_back(lb); }   // alone the plan is clean, twice the same: what the worker saw came from before it
            else { printf("HARNESS-NONDETERMINISM: %s\n", lb); ++harness_errors; }
            continue;
        }
        Shrinker sh; sh.tag = tag; sh.budget = H->time_limit(plan) > 60 ? 0 : O.shrink_budget;   // a run that takes minutes is reported as it is
        Json min = sh.run(cs);
        Outcome fin = evaluate(min);
        std::string msg = fin.crashed ? fin.crash_msg : R.viol_msg[tag];
        for (auto &v : fin.viol) if (v.tag == tag) msg = v.msg;
        min["tag"] = tag; min["msg"] = msg;
        min["shrink_evals"] = sh.evals;
        char name[512];
        snprintf(name, sizeof name, "%s/%s-%016llx.json", O.replay_dir.c_str(), sanitize_tag(tag).c_str(), (unsigned long long)fnv_str(min.get("plan").str()));
        min.save(name);
        // fresh process replay (exec of this binary)
        std::string cmd = std::string("/proc/self/exe");
        char self[4096]; ssize_t sl = readlink("/proc/self/exe", self, sizeof self - 1);
        if (sl > 0) { self[sl] = 0; cmd = self; }
        fflush(stdout);
        pid_t pid = fork();
        int status = 0;
        if (pid == 0) {
            int dn = open("/dev/null", O_WRONLY); dup2(dn, 1); dup2(dn, 2);
            execl(cmd.c_str(), cmd.c_str(), "--prop", O.prop.c_str(), "--replay", name, (char *)nullptr);
            _exit(3);
        }
        while (waitpid(pid, &status, 0) < 0 && errno == EINTR) {}
        if (!(WIFEXITED(status) && WEXITSTATUS(status) == 1)) {
            printf("HARNESS-NONDETERMINISM: replay file %s does not reproduce in a fresh process (status %d)\n", name, status);
            ++harness_errors; continue;
        }
        if (kn) { printf("KNOWN-FINDING: property=%s %s [tag=%s replay=%s]\n", O.prop.c_str(), kn->what.c_str(), tag.c_str(), name); ++known_hits; }
        else {
            printf("violation: tag=%s first_run=%llu minimised_in=%d_evals: %s\n", tag.c_str(), (unsigned long long)idx, sh.evals, msg.c_str());
            printf("VIOLATION property=%s replay=%s\n", O.prop.c_str(), name);
            ++unknown_violations;
        }
    }

    if (carried) {
        // confirmed violations exist: the unconfirmed ones are more of the same (the library keeps state between runs); none: the harness is at fault
        for (auto &l : carried_lines) printf("%s: %s\n", unknown_violations > 0 ? "note" : "HARNESS-NONDETERMINISM", l.c_str());
        if (unknown_violations == 0) harness_errors += carried;
    }
    if (R.det_mismatch) {
        if (unknown_violations > 0 && harness_errors == 0)
            printf("note: %llu sampled runs behaved differently when executed a second time in the same process: state survives outside the objects of a run; every violation above was confirmed in fresh processes\n", (unsigned long long)R.det_mismatch);
        else {
            printf("HARNESS-NONDETERMINISM: %llu sampled runs produced a different fingerprint when executed twice\n", (unsigned long long)R.det_mismatch);
            return 2;
        }
    }
    double wall = std::chrono::duration<double>(clk::now() - t0).count();

    // ---- evidence
    if (!O.no_evidence) {
        Json ev = Json::obj();
        Json d = H->describe(O.prop);
        ev["property_id"] = O.prop;
        ev["tier"] = O.tier.thorough() ? "thorough" : "quick";
        ev["seed"] = (long long)O.seed;
        ev["level"] = H->level(O.prop);
        Json cov = Json::obj();
        cov["evaluations"] = (long long)R.evaluations;
        cov["distinct_nontrivial"] = (long long)dt->count.load();
        cov["distinct_counter_saturated"] = dt->overflow.load() != 0;
        cov["rule"] = d.gets("rule");
        Json samples = Json::arr();
        for (uint64_t i = 0; i < 3 && i < total; ++i) samples.push(gen_plan(i * (total / 3 ? total / 3 : 1)));
        cov["samples"] = samples;
        cov["nontrivial_runs"] = (long long)R.nontrivial;
        cov["library_executions"] = (long long)R.execs;
        cov["simulated_steps"] = (long long)R.steps;
        cov["faults_fired_total"] = (long long)R.faults;
        cov["runs_per_hour"] = (long long)(wall_batch > 0 ? (double)R.evaluations / wall_batch * 3600.0 : 0);
        cov["executions_per_hour"] = (long long)(wall_batch > 0 ? (double)R.execs / wall_batch * 3600.0 : 0);
        cov["seeds"] = std::string("per-run seed = splitmix64(VERIF_SEED ^ fnv(property), index), index 0..") + std::to_string(total ? total - 1 : 0);
        cov["simulated_time"] = "logical steps only (seam events); the library has no clock";
        Json cj = Json::obj(), fj = Json::obj(), pj = Json::obj();
        std::vector<std::string> zero_probes;
        for (auto &pn : H->probes(O.prop)) if (!R.counters.count("probe." + pn)) R.counters["probe." + pn] = 0;
        for (auto &p : R.counters) {
            if (p.first.rfind("fault.", 0) == 0) fj[p.first.substr(6)] = (long long)p.second;
            else if (p.first.rfind("probe.", 0) == 0) { pj[p.first.substr(6)] = (long long)p.second; if (!p.second) zero_probes.push_back(p.first.substr(6)); }
            else cj[p.first] = (long long)p.second;
        }
        cov["fault_kinds_fired"] = fj;
        cov["probes"] = pj;
        Json zp = Json::arr(); for (auto &z : zero_probes) zp.push(z);
        cov["probes_at_zero"] = zp;
        if (!zero_probes.empty() && R.evaluations >= 100000) {   // a coverage hole, not a verdict: said aloud so that it is not overlooked
            std::string l; for (auto &z : zero_probes) l += " " + z;
            printf("sim: NOTE coverage probes that never fired in this batch:%s\n", l.c_str());
        }
        cov["counters"] = cj;
        Json sj = Json::obj();
        for (auto &p : R.states) sj[p.first] = (long long)p.second.size();
        cov["abstract_states_reached"] = sj;
        cov["real_components"] = d.get("real");
        cov["stub_components"] = d.get("stubs");
        cov["workers"] = W;
        cov["worker_crashes"] = (long long)crashes.size();
        cov["aborted_early"] = aborted;
        if (d.has("exhaustive")) cov["exhaustive"] = d.get("exhaustive");
        if (d.has("extra")) for (auto &p : d.get("extra").o) cov[p.first] = p.second;
        {   // build variants this check ran: this pass and, when ./check ran one before it, the other build's pass
            Json bv = Json::arr(), me = Json::obj();
            me["build"] = BUILD_VARIANT; me["evaluations"] = (long long)R.evaluations; me["library_executions"] = (long long)R.execs;
            me["distinct_nontrivial"] = (long long)dt->count.load(); me["violations"] = unknown_violations; bv.push(me);
            Json other; if (!O.variant_summary.empty() && Json::load(O.variant_summary, other) && other.has("build")) bv.push(other);
            cov["build_variants"] = bv;
        }
        ev["coverage"] = cov;
        ev["assumptions"] = d.get("assumptions");
        ev["wall_s"] = (long long)(wall * 1000) / 1000;
        ev["violations"] = unknown_violations;
        ev["known_findings_hit"] = known_hits;
        mkdir(O.evidence_dir.c_str(), 0755);
        std::string ep = O.evidence_dir + "/" + O.prop + ".json";
        // wall_s must be a number; store with millisecond precision as integer ms / 1000 is lossy, use string build
        std::string txt = ev.str(1);
        char wbuf[64]; snprintf(wbuf, sizeof wbuf, "\"wall_s\": %.3f", wall);
        size_t wp = txt.find("\"wall_s\": ");
        if (wp != std::string::npos) { size_t we = txt.find_first_of(",\n", wp); txt.replace(wp, we - wp, wbuf); }
        FILE *f = fopen(ep.c_str(), "wb");
        if (f) { fwrite(txt.data(), 1, txt.size(), f); fputc('\n', f); fclose(f); }
    }

    if (!O.summary_out.empty()) {
        Json me = Json::obj();
        me["build"] = BUILD_VARIANT; me["evaluations"] = (long long)R.evaluations; me["library_executions"] = (long long)R.execs;
        me["distinct_nontrivial"] = (long long)dt->count.load(); me["violations"] = unknown_violations; me["known_findings_hit"] = known_hits;
        me["harness_errors"] = harness_errors; me["wall_ms"] = (long long)(wall * 1000);
        me.save(O.summary_out.c_str());
    }
    printf("sim: %llu runs, %llu library executions, %llu steps, %llu distinct non-trivial fingerprints, %.1fs; violations=%d known=%d harness_errors=%d\n",
           (unsigned long long)R.evaluations, (unsigned long long)R.execs, (unsigned long long)R.steps, (unsigned long long)dt->count.load(), wall,
           unknown_violations, known_hits, harness_errors);
    if (harness_errors) return 2;
    return unknown_violations ? 1 : 0;
}

// determinism self-test helper: prints one line per run so that outputs of
// several processes / worker counts can be diffed
static int do_det(uint64_t n) {
    for (uint64_t idx = 0; idx < n; ++idx) {
        Json plan = gen_plan(idx);
        Ctx a; a.prop = O.prop; H->exec(plan, a);
        Ctx b; b.prop = O.prop; H->exec(plan, b);
        printf("%llu %016llx %016llx %016llx %zu %zu\n", (unsigned long long)idx, (unsigned long long)fnv_str(plan.str()),
               (unsigned long long)a.fp, (unsigned long long)b.fp, a.viol.size(), b.viol.size());
    }
    return 0;
}

}  // namespace drv

int sim_main(int argc, char **argv, Harness &h) {
    using namespace drv;
    H = &h;
    const char *es = getenv("VERIF_SEED");
    if (es && *es) { O.seed = strtoull(es, nullptr, 0); O.seed_given = true; }
    const char *et = getenv("VERIF_TIER");
    if (et && !strcmp(et, "thorough")) O.tier.level = 1;
    const char *ej = getenv("VERIF_JOBS");
    if (ej && *ej) O.jobs = atoi(ej);
    bool tier_given = false;
    for (int i = 1; i < argc; ++i) {
        std::string a = argv[i];
        auto next = [&]() -> std::string { return i + 1 < argc ? argv[++i] : ""; };
        if (a == "--prop") O.prop = next();
        else if (a == "--tier") { O.tier.level = next() == "thorough" ? 1 : 0; tier_given = true; }
        else if (a == "--seed") { O.seed = strtoull(next().c_str(), nullptr, 0); O.seed_given = true; }
        else if (a == "--runs") O.runs = atoll(next().c_str());
        else if (a == "--jobs") O.jobs = atoi(next().c_str());
        else if (a == "--replay") O.replay = next();
        else if (a == "--dump") O.dump = atoll(next().c_str());
        else if (a == "--det") O.det = atoll(next().c_str());
        else if (a == "--verbose" || a == "-v") O.verbose = true;
        else if (a == "--findings") O.findings = next();
        else if (a == "--evidence-dir") O.evidence_dir = next();
        else if (a == "--replay-dir") O.replay_dir = next();
        else if (a == "--no-evidence") O.no_evidence = true;
        else if (a == "--shrink-budget") O.shrink_budget = atoi(next().c_str());
        else if (a == "--stop-early") O.stop_early = true;
        else if (a == "--runs-div") O.runs_div = atoll(next().c_str());
        else if (a == "--summary-out") O.summary_out = next();
        else if (a == "--variant-summary") O.variant_summary = next();
        else { fprintf(stderr, "unknown option %s\n", a.c_str()); return 2; }
    }
    (void)tier_given;
    if (O.prop.empty()) O.prop = h.props()[0];
    bool okp = false;
    for (auto &p : h.props()) if (p == O.prop) okp = true;
    if (!okp && O.replay.empty()) { fprintf(stderr, "harness %s does not serve property %s\n", h.name(), O.prop.c_str()); return 2; }
    if (!O.seed_given) O.seed = 20261001;
    const char *er = getenv("VERIF_ROOT");
    if (er && *er) O.root = er;
    if (O.findings.empty()) O.findings = O.root + "/known-findings.json";
    if (O.evidence_dir.empty()) O.evidence_dir = O.root + "/evidence";
    if (O.replay_dir.empty()) O.replay_dir = O.root + "/replays";
    O.tmp_dir = O.root + "/build";
    mkdir(O.tmp_dir.c_str(), 0755);
    if (!O.replay.empty()) return do_replay(O.replay);
    if (O.dump >= 0) { printf("%s\n", make_case(O.prop, O.seed, (uint64_t)O.dump, gen_plan((uint64_t)O.dump)).str(1).c_str()); return 0; }
    if (O.det >= 0) return do_det((uint64_t)O.det);
    return run_batch();
}
