// Reference codec for the register protocol, written from doc/regp.txt
// (version 0) and RFC 1055 / protobuf varint. It does not call the library.
#pragma once
#include <cstdint>
#include <string>
#include <vector>

namespace rpref {

typedef std::vector<uint8_t> Bytes;

enum { T_RREQ = 0, T_RRESP = 1, T_WREQ = 2, T_WRESP = 3, T_META = 15 };
enum { OPT_WS16 = 1, OPT_HDCRC = 2, OPT_PLCRC = 4 };
enum { RC_ACK = 0, RC_EWORDSIZE, RC_EPAYLOADCRC, RC_EPAYLOADSIZE, RC_ERXOVERFLOW, RC_ETXOVERFLOW, RC_EBUSY, RC_EUNMAPPED, RC_EACCESS, RC_ERANGE, RC_EINVALID, RC_EIO };
enum { META_EHEADERENC = 1, META_EHEADERCRC = 2 };
enum Verdict { V_ACCEPT, V_HEADERENC, V_HEADERCRC, V_PAYLOADSIZE, V_PAYLOADCRC };

static inline uint16_t crc16arc(const uint8_t *d, size_t n, uint16_t crc = 0) {
    for (size_t i = 0; i < n; ++i) { crc ^= d[i]; for (int b = 0; b < 8; ++b) crc = (crc & 1) ? (uint16_t)((crc >> 1) ^ 0xA001) : (uint16_t)(crc >> 1); }
    return crc;
}
static inline bool code_has_payload(int code) { return code == RC_ERXOVERFLOW || code == RC_ETXOVERFLOW || code == RC_EUNMAPPED || code == RC_EACCESS || code == RC_ERANGE || code == RC_EINVALID; }

struct Frame {
    int version = 0, type = 0, options = 0, meta = 0;
    uint16_t seq = 0; uint32_t addr = 0, bsize = 0;
    uint16_t hdcrc = 0, plcrc = 0;
    Bytes payload;
    bool is_request() const { return type == T_RREQ || type == T_WREQ; }
    bool is_response() const { return type == T_RRESP || type == T_WRESP; }
};

static inline void put16(Bytes &b, uint16_t v) { b.push_back((uint8_t)(v >> 8)); b.push_back((uint8_t)v); }
static inline void put32(Bytes &b, uint32_t v) { put16(b, (uint16_t)(v >> 16)); put16(b, (uint16_t)v); }
static inline uint16_t get16(const uint8_t *p) { return (uint16_t)((p[0] << 8) | p[1]); }
static inline uint32_t get32(const uint8_t *p) { return ((uint32_t)get16(p) << 16) | get16(p + 2); }

// Raw frame octets for the given fields. Checksum words exist exactly as the
// option bits say (packed); with fix_crc the checksums are computed, else the
// values in the struct are emitted as they are.
static inline Bytes encode(const Frame &f, bool fix_crc = true) {
    Bytes b;
    uint16_t motv = (uint16_t)((f.version & 15) | ((f.type & 15) << 4) | ((f.options & 15) << 8) | ((f.meta & 15) << 12));
    put16(b, motv); put16(b, f.seq); put32(b, f.addr); put32(b, f.bsize);
    uint16_t plcrc = fix_crc ? crc16arc(f.payload.data(), f.payload.size()) : f.plcrc;
    if (f.options & OPT_HDCRC) {
        uint16_t h = f.hdcrc;
        if (fix_crc) {
            h = crc16arc(b.data(), 12);
            if (f.options & OPT_PLCRC) { uint8_t w[2] = {(uint8_t)(plcrc >> 8), (uint8_t)plcrc}; h = crc16arc(w, 2, h); }
        }
        put16(b, h);
    }
    if (f.options & OPT_PLCRC) put16(b, plcrc);
    b.insert(b.end(), f.payload.begin(), f.payload.end());
    return b;
}

// Raw frame whose payload-checksum word is forced to a given value while the header checksum stays consistent
// (so that the payload check is the only barrier the frame meets).
static inline Bytes encode_forged_plcrc(const Frame &f, uint16_t plcrc) {
    Frame g = f; g.options |= OPT_PLCRC; g.plcrc = plcrc;
    if (g.options & OPT_HDCRC) {
        Bytes h; uint16_t motv = (uint16_t)((g.version & 15) | ((g.type & 15) << 4) | ((g.options & 15) << 8) | ((g.meta & 15) << 12));
        put16(h, motv); put16(h, g.seq); put32(h, g.addr); put32(h, g.bsize);
        uint16_t c = crc16arc(h.data(), 12); uint8_t w[2] = {(uint8_t)(plcrc >> 8), (uint8_t)plcrc}; g.hdcrc = crc16arc(w, 2, c);
    }
    return encode(g, false);
}

// Independent reading of the document for an arbitrary octet sequence.
static inline Verdict classify(const Bytes &raw, Frame &f) {
    f = Frame();
    if (raw.size() < 12) return V_HEADERENC;
    uint16_t motv = get16(raw.data());
    f.version = motv & 15; f.type = (motv >> 4) & 15; f.options = (motv >> 8) & 15; f.meta = (motv >> 12) & 15;
    f.seq = get16(raw.data() + 2); f.addr = get32(raw.data() + 4); f.bsize = get32(raw.data() + 8);
    if (f.version != 0) return V_HEADERENC;
    if (f.options & 8) return V_HEADERENC;                      // reserved option bit
    switch (f.type) {
    case T_RREQ: case T_WREQ: if (f.meta != 0) return V_HEADERENC; break;          // reserved in requests
    case T_RRESP: case T_WRESP: if (f.meta > RC_EIO) return V_HEADERENC; break;    // twelve response codes 0..11
    case T_META: if (f.meta < 1 || f.meta > 2) return V_HEADERENC; break;
    default: return V_HEADERENC;                                                   // reserved type codes
    }
    size_t hl = 12 + ((f.options & OPT_HDCRC) ? 2 : 0) + ((f.options & OPT_PLCRC) ? 2 : 0);
    if (raw.size() < hl) return V_HEADERENC;
    size_t off = 12;
    if (f.options & OPT_HDCRC) { f.hdcrc = get16(raw.data() + off); off += 2; }
    if (f.options & OPT_PLCRC) { f.plcrc = get16(raw.data() + off); off += 2; }
    if (f.options & OPT_HDCRC) {
        uint16_t h = crc16arc(raw.data(), 12);
        if (f.options & OPT_PLCRC) h = crc16arc(raw.data() + off - 2, 2, h);
        if (h != f.hdcrc) return V_HEADERCRC;
    }
    f.payload.assign(raw.begin() + (long)hl, raw.end());
    const size_t ws = (f.options & OPT_WS16) ? 2 : 1;
    if (f.type == T_RREQ) { if (!f.payload.empty()) return V_PAYLOADSIZE; }
    else if (f.type == T_META) { if (!f.payload.empty()) return V_PAYLOADSIZE; }
    else { if ((uint64_t)f.bsize * ws != f.payload.size()) return V_PAYLOADSIZE; }
    if (f.options & OPT_PLCRC) { if (crc16arc(f.payload.data(), f.payload.size()) != f.plcrc) return V_PAYLOADCRC; }
    return V_ACCEPT;
}

// ---- framing
static inline Bytes slip(const Bytes &raw) {
    Bytes o;
    for (uint8_t x : raw) { if (x == 0xc0) { o.push_back(0xdb); o.push_back(0xdc); } else if (x == 0xdb) { o.push_back(0xdb); o.push_back(0xdd); } else o.push_back(x); }
    o.push_back(0xc0); return o;
}
static inline Bytes varint(uint64_t n) { Bytes p; do { uint8_t b = n & 0x7f; n >>= 7; if (n) b |= 0x80; p.push_back(b); } while (n); return p; }
static inline Bytes lenp(const Bytes &raw) { Bytes o = varint(raw.size()); o.insert(o.end(), raw.begin(), raw.end()); return o; }
static inline Bytes frame_on(bool serial, const Bytes &raw) { return serial ? slip(raw) : lenp(raw); }

// split a wire image back into raw frames (reference deframer); returns false on malformed framing
static inline bool deframe(bool serial, const Bytes &wire, std::vector<Bytes> &out) {
    out.clear();
    if (serial) {
        Bytes cur; size_t i = 0;
        while (i < wire.size()) {
            uint8_t x = wire[i++];
            if (x == 0xc0) { out.push_back(cur); cur.clear(); }
            else if (x == 0xdb) { if (i >= wire.size()) return false; uint8_t y = wire[i++]; if (y == 0xdc) cur.push_back(0xc0); else if (y == 0xdd) cur.push_back(0xdb); else return false; }
            else cur.push_back(x);
        }
        return cur.empty();
    }
    size_t i = 0;
    while (i < wire.size()) {
        uint64_t n = 0; int sh = 0; bool done = false;
        while (i < wire.size() && sh < 64) { uint8_t b = wire[i++]; n |= (uint64_t)(b & 0x7f) << sh; sh += 7; if (!(b & 0x80)) { done = true; break; } }
        if (!done || n > wire.size() - i) return false;
        out.push_back(Bytes(wire.begin() + (long)i, wire.begin() + (long)(i + n))); i += n;
    }
    return true;
}

static inline const char *verdict_name(Verdict v) {
    switch (v) { case V_ACCEPT: return "accept"; case V_HEADERENC: return "header-encoding"; case V_HEADERCRC: return "header-crc"; case V_PAYLOADSIZE: return "payload-size"; default: return "payload-crc"; }
}

}  // namespace rpref
