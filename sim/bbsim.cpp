// bbsim - byte buffer under interleaved producer/consumer/housekeeper tasks (property C18)
#include "driver.hpp"
#include "seams.hpp"

namespace {

struct BbHarness : Harness {
    const char *name() const override { return "bbsim"; }
    std::vector<std::string> props() const override { return {"C18"}; }
    std::vector<std::string> probes(const std::string &) const override {
        return {"rewind_partial", "rewind_fully_consumed", "add_exactly_fills", "add_refused", "consume_refused", "consume_at_most_clipped",
                "invalid_setup_null_memory", "invalid_setup_zero_size", "invalid_setup_used_gt_size", "invalid_setup_offset_gt_used", "count_beyond_any_block", "buffer_of_64k_octets_or_more", "buffer_from_static_initialiser", "invalid_setup_names_other_memory", "added_octets_alias_the_buffer_object", "object_nulled", "invalid_setup_through_use_or_space"};
    }
    uint64_t runs(const std::string &, const Tier &t) const override { return t.thorough() ? 6000000 : 1500000; }

    Json describe(const std::string &) const override {
        Json d = Json::obj();
        d["rule"] = "plans = {block size, initial (size,used,offset), ops[]}; ops belong to three cooperative tasks (producer: add; "
                    "consumer: consume, consume_at_most; housekeeper: rewind, reset, clear, repeat, set/use/space with valid and invalid "
                    "arguments) interleaved by the seeded scheduler at call granularity; a run is non-trivial when at least one "
                    "operation executed; distinct = distinct execution fingerprints over (op, arguments, result, fields) sequences";
        Json real = Json::arr(); real.push("src/byte-buffer.c");
        Json stubs = Json::arr(); stubs.push("none (the byte buffer has no seam; the block is an exact-size heap block under ASan)");
        d["real"] = real; d["stubs"] = stubs;
        Json as = Json::arr();
        as.push("weak claim: byte-buffer.c has no seam, fault or concurrency; the simulator contributes seeded call interleaving of three tasks and a list model only");
        as.push("the property's 'all reachable states of sizes 1..5' is explicit-state enumeration and is not claimed; the evidence reports which (size,used,offset) triples were reached");
        as.push("content of the free space behind 'used' is unspecified except after clear (all zero) and after refused calls (unchanged)");
        as.push("operations on a buffer without memory (byte_buffer_null) other than rewind are not generated");
        d["assumptions"] = as;
        Json ex = Json::obj(); ex["abstract_states_possible_sizes_1_to_5"] = 55;
        d["extra"] = ex;
        return d;
    }

    Json gen(const std::string &, Rng &r, const Tier &t, uint64_t) override {
        Json p = Json::obj();
        int64_t size = r.chance(3, 4) ? r.range(1, 5) : (t.thorough() ? (r.chance(1, 4) ? r.range(6, 4096) : r.range(6, 64)) : r.range(6, 16));
        if (r.chance(1, t.thorough() ? 500 : 2000)) { static const int64_t BIG[] = {65535, 65536, 65537, 70000}; size = BIG[r.below(4)]; }   // fill and read marks that do not fit 16 bits
        p["size"] = (long long)size; if (r.chance(1, 3)) p["macro_init"] = 1;
        int64_t used = r.chance(1, 2) ? 0 : r.range(0, size);
        int64_t off = r.chance(1, 2) ? 0 : r.range(0, used);
        p["used"] = (long long)used; p["offset"] = (long long)off;
        int nops = (int)r.range(1, t.thorough() ? (size > 16 ? 400 : 60) : 40);
        // swarm: task weights
        unsigned wp = 1 + (unsigned)r.below(4), wc = 1 + (unsigned)r.below(4), wh = (unsigned)r.below(3);
        static const std::vector<std::string> HK = {"rewind", "rewind", "rewind", "reset", "clear", "repeat", "set", "use", "space", "badset", "nullbuf"};
        std::vector<std::string> hk;
        for (auto &h : HK) if (r.chance(2, 3)) hk.push_back(h);
        if (hk.empty()) hk.push_back("rewind");
        Json ops = Json::arr();
        for (int i = 0; i < nops; ++i) {
            Json o = Json::obj();
            uint64_t pickw = r.below(wp + wc + wh);
            int64_t n = r.chance(1, 6) ? (r.chance(1, 2) ? 0 : size + 1) : r.range(0, size < 8 ? size : (r.chance(1, 2) ? 8 : size));
            if (pickw < wp) { o["t"] = "P"; o["op"] = "add"; o["n"] = (long long)n; if (r.chance(1, 10)) { o["self"] = (long long)r.below(3); o["n"] = (long long)r.range(1, 8); } }
            else if (pickw < wp + wc) { o["t"] = "C"; o["op"] = r.chance(1, 2) ? "consume" : "atmost"; o["n"] = (long long)n; }
            if (pickw < wp + wc) { if (r.chance(1, 24)) o["big"] = (long long)r.below(8); }   // a count near SIZE_MAX / 2^32 / wrapping the fill or read mark
            else {
                o["t"] = "H";
                const std::string &k = r.pick(hk);
                o["op"] = k;
                if (k == "set") { int64_t s = r.range(1, size), u = r.range(0, s), f = r.range(0, u); o["s"] = (long long)s; o["u"] = (long long)u; o["f"] = (long long)f; }
                else if (k == "use" || k == "space") o["s"] = (long long)r.range(1, size);
                else if (k == "badset") { o["kind"] = (long long)r.below(8); o["n"] = (long long)r.below(3); o["via"] = (long long)r.below(3); }
            }
            ops.push(o);
        }
        p["ops"] = ops;
        return p;
    }

    void exec(const Json &plan, Ctx &c) override {
        int64_t bsize = plan.geti("size", 1); if (bsize < 1) bsize = 1; if (bsize > 1 << 17) bsize = 1 << 17;
        if (bsize >= 65536) COUNT("probe.buffer_of_64k_octets_or_more");
        int64_t u0 = plan.geti("used"); if (u0 < 0) u0 = 0; if (u0 > bsize) u0 = bsize;
        int64_t f0 = plan.geti("offset"); if (f0 < 0) f0 = 0; if (f0 > u0) f0 = u0;
        GuardedBlock blk((size_t)bsize);
        ByteBuffer b;
        uint64_t serial = 0;  // every added octet is unique modulo 251 in order -> FIFO attributable
        auto nextoctet = [&]() { return (uint8_t)(1 + (serial++ % 251)); };
        // model
        size_t msize = (size_t)bsize, mused = (size_t)u0, moff = (size_t)f0;
        std::vector<uint8_t> img((size_t)bsize);
        for (size_t i = 0; i < (size_t)u0; ++i) blk.p[i] = nextoctet();
        memcpy(img.data(), blk.p, (size_t)bsize);
        const bool macro_init = plan.geti("macro_init") != 0;   // objects set up with the header's static initialisers instead of the set-up functions
        int rc0 = 0;
        if (macro_init) { b = hm_byte_buffer_init(blk.p, (size_t)bsize, (size_t)u0, (size_t)f0); COUNT("probe.buffer_from_static_initialiser"); }
        else rc0 = byte_buffer_set(&b, blk.p, (size_t)bsize, (size_t)u0, (size_t)f0);
        if (rc0 != 0) { c.fail("setup", "valid byte_buffer_set refused: %d", rc0); return; }
        // history: octets added / consumed since the last epoch change
        std::vector<uint8_t> added(img.begin(), img.begin() + (long)u0), consumed;
        consumed.assign(img.begin(), img.begin() + (long)f0);
        auto state = [&]() { if (msize <= 5) STATE("bb.size_used_offset", (msize << 16) | (mused << 8) | moff); };
        state();

        auto check = [&](const char *site, bool refused, const std::vector<uint8_t> &before_mem, size_t bs, size_t bu, size_t bo) {
            if (!(b.offset <= b.used && b.used <= b.size)) c.fail(std::string("invariant.") + site, "offset=%zu used=%zu size=%zu", b.offset, b.used, b.size);
            if (b.size != msize || b.used != mused || b.offset != moff)
                c.fail(std::string("fields.") + site, "fields (size,used,offset)=(%zu,%zu,%zu), model (%zu,%zu,%zu)", b.size, b.used, b.offset, msize, mused, moff);
            if (b.data != blk.p) c.fail(std::string("fields.") + site, "data pointer changed");
            else if (mused <= (size_t)bsize && !bytes_eq(blk.p, img.data(), mused))
                c.fail(std::string("image.") + site, "data[0,%zu) differs from the model image", mused);
            if (refused) {
                if (b.size != bs || b.used != bu || b.offset != bo) c.fail(std::string("refused.") + site, "refused call changed the fields");
                if (!bytes_eq(blk.p, before_mem.data(), (size_t)bsize)) c.fail(std::string("refused.") + site, "refused call changed the memory");
            }
            // FIFO / conservation: consumed is a prefix of added
            if (consumed.size() > added.size() || !bytes_eq(consumed.data(), added.data(), consumed.size()))
                c.fail(std::string("fifo.") + site, "octets consumed are not a prefix of the octets added");
            state();
        };

        const Json &ops = plan.get("ops");
        for (size_t oi = 0; oi < ops.size(); ++oi) {
            const Json &o = ops.at(oi);
            const std::string op = o.gets("op");
            std::vector<uint8_t> before(blk.p, blk.p + bsize);
            const size_t bs = b.size, bu = b.used, bo = b.offset;
            int64_t nn = o.geti("n"); if (nn < 0) nn = 0; if (nn > bsize + 1) nn = bsize + 1;
            size_t n = (size_t)nn;
            const bool big = o.has("big") && (op == "add" || op == "consume" || op == "atmost");
            if (big) {   // counts that cannot be materialised: always more than the block holds, some chosen to wrap used+n or offset+n
                switch (o.geti("big") & 7) {
                case 0: n = SIZE_MAX; break;
                case 1: n = (size_t)0 - mused; break;
                case 2: n = (size_t)0 - mused + 1; break;
                case 3: n = (size_t)0 - moff + (size_t)(nn & 3); break;
                case 4: n = (size_t)1 << 63; break;
                case 5: n = (size_t)1 << 32; break;
                case 6: n = ((size_t)1 << 32) + (size_t)nn; break;
                default: n = (size_t)1 << 31; break;
                }
                if (n <= (size_t)bsize + 1) n = SIZE_MAX;
                COUNT("probe.count_beyond_any_block");
            }
            c.ops_done++; c.execs++;
            if (op == "add") {
                std::vector<uint8_t> d(big ? 1 : (n ? n : 1));
                uint64_t s0 = serial;
                for (size_t i = 0; !big && i < n; ++i) d[i] = nextoctet();
                // the octets to add may be the buffer object's own fields (a record writer stamping "octets so far" into the stream): what counts is
                // their content when the call is made
                const void *from = d.data();
                if (!big && o.has("self") && n >= 1 && n <= sizeof(size_t)) {
                    const size_t *fld = (o.geti("self") % 3) == 0 ? &b.used : ((o.geti("self") % 3) == 1 ? &b.offset : &b.size);
                    memcpy(d.data(), fld, n); from = fld; serial = s0; COUNT("probe.added_octets_alias_the_buffer_object");
                }
                int rc = byte_buffer_add(&b, from, n);
                c.ev(EV_API, 1, n, (uint64_t)rc);
                bool fits = !big && mused + n <= msize;
                if (fits) {
                    if (rc != 0) c.fail("result.add", "add of %zu octets with %zu free returned %d", n, msize - mused, rc);
                    memcpy(img.data() + mused, d.data(), n); mused += n;
                    added.insert(added.end(), d.begin(), d.begin() + (long)n);
                    if (mused == msize && n > 0) COUNT("probe.add_exactly_fills");
                } else {
                    serial = s0;
                    if (rc != -ENOMEM) c.fail("result.add", "add of %zu octets with %zu free returned %d, expected -ENOMEM", n, msize - mused, rc);
                    COUNT("probe.add_refused");
                }
                check("add", !fits, before, bs, bu, bo);
            } else if (op == "consume" || op == "atmost") {
                bool atmost = op == "atmost";
                size_t rest = mused - moff;
                GuardedBlock dst(big ? (rest ? rest : 1) : (n ? n : 1));
                ssize_t rc = atmost ? byte_buffer_consume_at_most(&b, dst.p, n) : (ssize_t)byte_buffer_consume(&b, dst.p, n);
                c.ev(EV_API, atmost ? 3 : 2, n, (uint64_t)rc);
                bool refused;
                size_t take = 0;
                if (atmost) {
                    refused = rest == 0;
                    take = n < rest ? n : rest;
                    if (refused) { if (rc != -ENODATA) c.fail("result.atmost", "empty buffer: expected -ENODATA, got %zd", rc); }
                    else if (rc != (ssize_t)take) c.fail("result.atmost", "asked %zu, %zu unread, returned %zd", n, rest, rc);
                    if (!refused && n > rest) COUNT("probe.consume_at_most_clipped");
                } else {
                    refused = n > rest;
                    take = n;
                    if (refused) { if (rc != -ENODATA) c.fail("result.consume", "asked %zu with %zu unread: expected -ENODATA, got %zd", n, rest, rc); COUNT("probe.consume_refused"); }
                    else if (rc != 0) c.fail("result.consume", "asked %zu with %zu unread: returned %zd", n, rest, rc);
                }
                if (!refused) {
                    if (!bytes_eq(dst.p, img.data() + moff, take)) c.fail(std::string("data.") + op, "consumed octets are not the oldest unread octets in order");
                    if (!dst.unchanged_outside(0, take)) c.fail(std::string("bounds.") + op, "destination written beyond the %zu octets consumed", take);
                    consumed.insert(consumed.end(), img.begin() + (long)moff, img.begin() + (long)(moff + take));
                    moff += take;
                } else if (!dst.unchanged_outside(0, 0)) c.fail(std::string("refused.") + op, "refused consume wrote to the destination");
                check(op.c_str(), refused, before, bs, bu, bo);
            } else if (op == "rewind") {
                size_t rest = mused - moff;
                if (moff > 0 && moff < mused) COUNT("probe.rewind_partial");
                if (moff > 0 && moff == mused) COUNT("probe.rewind_fully_consumed");
                int rc = byte_buffer_rewind(&b);
                c.ev(EV_API, 4, (uint64_t)rc, rest);
                if (rc != 0) c.fail("result.rewind", "rewind returned %d", rc);
                memmove(img.data(), img.data() + moff, rest);
                mused = rest; moff = 0;
                // FIFO epoch: unread octets stay, nothing consumed is replayed
                added.erase(added.begin(), added.begin() + (long)consumed.size()); consumed.clear();
                check("rewind", false, before, bs, bu, bo);
                if (b.used == mused && b.offset == 0 && msize - mused != byte_buffer_avail(&b)) c.fail("result.rewind", "space behind the unread octets is not free");
            } else if (op == "reset" || op == "clear" || op == "repeat") {
                if (op == "reset") { byte_buffer_reset(&b); mused = moff = 0; added.clear(); consumed.clear(); }
                else if (op == "clear") { byte_buffer_clear(&b); mused = moff = 0; std::fill(img.begin(), img.begin() + (long)msize, 0); added.clear(); consumed.clear(); }
                else { byte_buffer_repeat(&b); moff = 0; added.assign(img.begin(), img.begin() + (long)mused); consumed.clear(); }
                c.ev(EV_API, 5, op[2], 0);
                check(op.c_str(), false, before, bs, bu, bo);
                if (op == "clear") {
                    for (size_t i = 0; i < msize; ++i) if (blk.p[i] != 0) { c.fail("image.clear", "octet %zu not zero after clear", i); break; }
                    for (size_t i = msize; i < (size_t)bsize; ++i) if (blk.p[i] != before[i]) { c.fail("bounds.clear", "clear wrote beyond the buffer's size at %zu", i); break; }
                }
            } else if (op == "set" || op == "use" || op == "space") {
                int64_t s = o.geti("s", 1); if (s < 1) s = 1; if (s > bsize) s = bsize;
                int64_t u = op == "use" ? s : (op == "space" ? 0 : o.geti("u")); if (u < 0) u = 0; if (u > s) u = s;
                int64_t f = op == "set" ? o.geti("f") : 0; if (f < 0) f = 0; if (f > u) f = u;
                int rc = 0;
                if (macro_init && (o.geti("s") & 1)) b = op == "set" ? hm_byte_buffer_init(blk.p, (size_t)s, (size_t)u, (size_t)f) : (op == "use" ? hm_byte_buffer(blk.p, (size_t)s) : hm_byte_buffer_empty(blk.p, (size_t)s));
                else rc = op == "set" ? byte_buffer_set(&b, blk.p, (size_t)s, (size_t)u, (size_t)f)
                       : (op == "use" ? byte_buffer_use(&b, blk.p, (size_t)s) : byte_buffer_space(&b, blk.p, (size_t)s));
                c.ev(EV_API, 6, (uint64_t)s, (uint64_t)(u * 65536 + f));
                if (rc != 0) c.fail("result.set", "valid set-up (%lld,%lld,%lld) refused with %d", (long long)s, (long long)u, (long long)f, rc);
                msize = (size_t)s; mused = (size_t)u; moff = (size_t)f;
                memcpy(img.data(), blk.p, (size_t)bsize);
                added.assign(img.begin(), img.begin() + (long)mused); consumed.assign(img.begin(), img.begin() + (long)moff);
                check("set", false, before, bs, bu, bo);
                if (!bytes_eq(blk.p, before.data(), (size_t)bsize)) c.fail("bounds.set", "set-up modified memory");
            } else if (op == "nullbuf") {
                // byte_buffer_null() on a copy of the object: the copy designates no memory at all afterwards, the buffer itself is untouched
                ByteBuffer t = b; byte_buffer_null(&t);
                c.ev(EV_API, 8, 0, 0); COUNT("probe.object_nulled");
                if (t.data != nullptr || t.size != 0 || t.used != 0 || t.offset != 0) c.fail("fields.null", "byte_buffer_null left data %s size=%zu used=%zu offset=%zu", t.data ? "set" : "null", t.size, t.used, t.offset);
                if (byte_buffer_rest(&t) != 0 || byte_buffer_avail(&t) != 0) c.fail("observers.null", "a nulled buffer reports %zu unread / %zu free octets", byte_buffer_rest(&t), byte_buffer_avail(&t));
                unsigned char one = 0x5a; unsigned char out1 = 0;
                if (byte_buffer_add(&t, &one, 1) != -ENOMEM) c.fail("result.null", "adding to a nulled buffer did not fail with -ENOMEM");
                if (byte_buffer_consume(&t, &out1, 1) != -ENODATA) c.fail("result.null", "consuming from a nulled buffer did not fail with -ENODATA");
                (void)byte_buffer_rewind(&t);   // whatever it answers, it has nothing to move and no memory to touch
                if (t.data != nullptr || t.size != 0 || t.used != 0 || t.offset != 0) c.fail("fields.null", "rewinding a nulled buffer left data %s size=%zu used=%zu offset=%zu", t.data ? "set" : "null", t.size, t.used, t.offset);
                check("nullbuf", true, before, bs, bu, bo);
            } else if (op == "badset") {
                int kind = (int)(o.geti("kind") & 7);
                const int via = (int)(((o.geti("via") % 3) + 3) % 3);
                if (via && (kind == 0 || kind == 1 || kind == 7)) COUNT("probe.invalid_setup_through_use_or_space");
                int rc;
                // kinds 4..7: the refused call names other memory and another (smaller) size than the buffer has - nothing of it may stick
                GuardedBlock other(3); const size_t osz = 1 + (size_t)(o.geti("n") % 3 + 3) % 3;
                switch (kind) {
                case 4: rc = byte_buffer_set(&b, other.p, osz, osz + 1, 0); COUNT("probe.invalid_setup_names_other_memory"); break;
                case 5: rc = byte_buffer_set(&b, other.p, osz, osz, osz + 1); COUNT("probe.invalid_setup_names_other_memory"); break;
                case 6: rc = byte_buffer_set(&b, other.p, osz, SIZE_MAX, 0); COUNT("probe.invalid_setup_names_other_memory"); break;
                // null memory and zero size can also be asked for through the two convenience set-ups (via 1: use, via 2: space)
                case 7: rc = via == 1 ? byte_buffer_use(&b, nullptr, osz) : via == 2 ? byte_buffer_space(&b, nullptr, osz) : byte_buffer_set(&b, nullptr, osz, 0, 0); COUNT("probe.invalid_setup_null_memory"); break;
                case 0: rc = via == 1 ? byte_buffer_use(&b, nullptr, (size_t)bsize) : via == 2 ? byte_buffer_space(&b, nullptr, (size_t)bsize) : byte_buffer_set(&b, nullptr, (size_t)bsize, 0, 0); COUNT("probe.invalid_setup_null_memory"); break;
                case 1: rc = via == 1 ? byte_buffer_use(&b, blk.p, 0) : via == 2 ? byte_buffer_space(&b, blk.p, 0) : byte_buffer_set(&b, blk.p, 0, 0, 0); COUNT("probe.invalid_setup_zero_size"); break;
                case 2: rc = byte_buffer_set(&b, blk.p, (size_t)bsize, (size_t)bsize + 1, 0); COUNT("probe.invalid_setup_used_gt_size"); break;
                default: rc = byte_buffer_set(&b, blk.p, (size_t)bsize, (size_t)bsize - 1, (size_t)bsize); COUNT("probe.invalid_setup_offset_gt_used"); break;
                }
                c.ev(EV_API, 7, (uint64_t)kind, (uint64_t)rc);
                if (rc != -EINVAL) c.fail("result.badset", "invalid set-up kind %d returned %d, expected -EINVAL", kind, rc);
                check("badset", true, before, bs, bu, bo);
            } else { c.ops_done--; c.execs--; }
            if (byte_buffer_rest(&b) != mused - moff || byte_buffer_avail(&b) != msize - mused)
                c.fail("observers", "rest/avail report %zu/%zu, model %zu/%zu", byte_buffer_rest(&b), byte_buffer_avail(&b), mused - moff, msize - mused);
            if (!c.viol.empty()) break;  // the model is out of step after the first violation: stop, no cascades
        }
    }
};

}  // namespace

int main(int argc, char **argv) {
    BbHarness h;
    return sim_main(argc, argv, h);
}
