// regsim - register table histories (properties C01..C05)
#include "driver.hpp"
#include "regmodel.hpp"
#include "seams.hpp"

extern "C" {
#include <ufw/register-table.h>
}

extern "C" {
extern RegisterArea regsim_macro_areas[]; extern RegisterEntry regsim_macro_entries[]; extern char regsim_macro_user[];
extern const unsigned regsim_macro_nareas, regsim_macro_nentries;
bool regsim_macro_cb(const RegisterEntry *, RegisterValue);
RegisterAccess regsim_macro_read(const RegisterArea *, RegisterAtom *, RegisterOffset, RegisterOffset);
RegisterAccess regsim_macro_write(RegisterArea *, const RegisterAtom *, RegisterOffset, RegisterOffset);
}

namespace {
using namespace regm;
#include "regmacros.inc"

// Octets of a value union beyond the member that belongs to its type carry no meaning (a caller may re-use an object that held a
// wider value before): they are filled with the plan's "dirt" octet, so that nothing can come to depend on them being zero.
// Operand objects and the objects inside the table description (defaults, limits) get independent dirt.
static uint8_t g_dirt = 0, g_dirt_tbl = 0;
static RegisterValue mkval(int type, uint64_t bits, bool for_table = false) {
    RegisterValue v; memset(&v, 0, sizeof v); memset(&v.value, for_table ? g_dirt_tbl : g_dirt, sizeof v.value);
    v.type = (RegisterType)type;
    switch (type) {
    case T_U16: v.value.u16 = (uint16_t)bits; break;
    case T_U32: v.value.u32 = (uint32_t)bits; break;
    case T_U64: v.value.u64 = bits; break;
    case T_S16: v.value.s16 = (int16_t)(uint16_t)bits; break;
    case T_S32: v.value.s32 = (int32_t)(uint32_t)bits; break;
    case T_S64: v.value.s64 = (int64_t)bits; break;
    case T_F32: { uint32_t u = (uint32_t)bits; memcpy(&v.value.f32, &u, 4); break; }
    default: memcpy(&v.value.f64, &bits, 8); break;
    }
    return v;
}
static RegisterValueU mkvalu(int type, uint64_t bits) { return mkval(type, bits, true).value; }
static uint64_t bits_of(const RegisterValue &v) {
    switch ((int)v.type) {
    case T_U16: return v.value.u16;
    case T_U32: return v.value.u32;
    case T_U64: return v.value.u64;
    case T_S16: return (uint16_t)v.value.s16;
    case T_S32: return (uint32_t)v.value.s32;
    case T_S64: return (uint64_t)v.value.s64;
    case T_F32: { uint32_t u; memcpy(&u, &v.value.f32, 4); return u; }
    case T_F64: { uint64_t u; memcpy(&u, &v.value.f64, 8); return u; }
    default: return 0;
    }
}
static const char *code_name(int c) {
    static const char *n[] = {"SUCCESS", "FAILURE", "UNINITIALISED", "NOENTRY", "RANGE", "INVALID", "READONLY", "IO_ERROR"};
    return c >= 0 && c < 8 ? n[c] : "?";
}

struct Sim;
static Sim *g_sim = nullptr;

struct Sim {
    Ctx &c;
    TableSpec spec;
    // library side
    RegisterTable tbl;
    RegisterArea *areas = nullptr;     // exact-size heap arrays incl. END sentinel
    RegisterEntry *entries = nullptr;
    std::vector<std::unique_ptr<GuardedBlock>> mem;     // memory-backed areas (words)
    std::vector<std::vector<uint16_t>> cbstore;         // callback-backed areas
    uint64_t cb_reads = 0, cb_writes = 0, cb_writes_op = 0;
    bool cb_oob = false;
    std::vector<int> be_hist;   // earlier byte-order requests on the same table object
    bool macro = false;   // the library objects are copies of the table written with the header's macros (sim/regmacros.c)
    bool lift = false; uint32_t shift = 0;   // the library sees every address of the description moved up by 'shift' (see build)
    // "spread" tables: everything of the description from model address 'split' on (an area behind a gap, and what follows) is moved up by 'spreadD'
    // for the library, so that neighbouring areas and registers are half the address space and more apart
    int spread = 0; uint32_t split = 0, spreadD = 0;
    uint32_t up(uint32_t a) const { return a + shift + (spreadD && a >= split ? spreadD : 0); }
    RegisterAccess down(RegisterAccess a) const { if (a.code != REG_ACCESS_SUCCESS) { a.address -= shift; if (spreadD && a.address >= split + spreadD) a.address -= spreadD; } return a; }
    // the length of a range in the library's coordinates (iteration is lenient about holes: a range that crosses the split has to grow by the gap)
    uint64_t uplen(uint32_t addr, uint32_t len) const { if (!spreadD || addr >= split || (uint64_t)addr + len <= split) return len; uint64_t l = (uint64_t)len + spreadD; uint64_t room = 0x100000000ull - up(addr); return l > room ? room : l; }
    // with a lifted table a request may not run over the end of the address space: returns false if it would (the op is then not executed)
    bool fits_address_space(uint32_t addr, uint64_t n) const { return (uint64_t)addr + shift + n <= 0x100000000ull; }
    // the same as a clamp: a request that would run over the end is cut so that it ends exactly at the last address; false = starts beyond it
    template <class N> bool clamp_n(uint32_t addr, N &n) const {
        uint64_t a = (uint64_t)addr + shift + (spreadD && addr >= split ? spreadD : 0); if (a > 0xffffffffull) return false;
        uint64_t room = 0x100000000ull - a; if ((uint64_t)n > room) { n = (N)room; COUNT("probe.request_ends_at_last_address"); }
        return true;
    }
    // a second task scheduled at a seam point: when the table's callbacks (area read / write, validator) are entered for the (intrude_at)-th time in the
    // current op, a job on a second, unrelated table runs to completion first; neither table may see anything of the other
    int64_t intrude_at = -1, intrude_arg = 0; uint64_t seam_calls_op = 0; bool intruded = false;
    void maybe_intrude();
    int64_t cb_fail_in = -1;   // injected fault: the k-th callback access from now fails with an I/O error (-1 = none)
    bool cb_fault() { if (cb_fail_in < 0) return false; if (cb_fail_in-- == 0) { c.faults_fired++; COUNT("fault.callback_area_io_error"); return true; } return false; }
    // model
    std::vector<std::vector<uint16_t>> M;               // words per area
    std::vector<char> touched;
    bool inited = false;

    explicit Sim(Ctx &ctx) : c(ctx) { memset(&tbl, 0, sizeof tbl); }
    ~Sim() { free(areas); free(entries); }

    // ---------------- callbacks behind the RegisterArea seam
    static RegisterAccess cb_read(const RegisterArea *a, RegisterAtom *dest, RegisterOffset off, RegisterOffset n) {
        Sim *s = g_sim; RegisterAccess rv = REG_ACCESS_RESULT_INIT;
        size_t i = (size_t)(a - s->areas);
        s->c.ev(EV_AREA_RD, i, off, n); s->cb_reads++; s->maybe_intrude();
        if (s->cb_fault()) { rv.code = REG_ACCESS_IO_ERROR; rv.address = off; return rv; }
        if (i >= s->cbstore.size() || (uint64_t)off + n > s->cbstore[i].size()) { s->cb_oob = true; rv.code = REG_ACCESS_IO_ERROR; return rv; }
        if (n) memcpy(dest, s->cbstore[i].data() + off, n * 2);
        return rv;
    }
    static RegisterAccess cb_write(RegisterArea *a, const RegisterAtom *src, RegisterOffset off, RegisterOffset n) {
        Sim *s = g_sim; RegisterAccess rv = REG_ACCESS_RESULT_INIT;
        size_t i = (size_t)(a - s->areas);
        s->c.ev(EV_AREA_WR, i, off, n); s->cb_writes++; s->cb_writes_op++; s->maybe_intrude();
        if (s->cb_fault()) { rv.code = REG_ACCESS_IO_ERROR; rv.address = off; return rv; }
        if (i >= s->cbstore.size() || (uint64_t)off + n > s->cbstore[i].size()) { s->cb_oob = true; rv.code = REG_ACCESS_IO_ERROR; return rv; }
        if (n) memcpy(s->cbstore[i].data() + off, src, n * 2);
        return rv;
    }
    static bool cb_validate(const RegisterEntry *e, RegisterValue v) {
        Sim *s = g_sim;
        const RegSpec *r = (const RegSpec *)e->user;
        s->c.ev(EV_VALIDATOR, (uint64_t)(r - s->spec.regs.data()), bits_of(v), 0); s->maybe_intrude();
        if ((int)v.type != r->type) return false;
        return cb_rule(*r, bits_of(v));
    }

    // ---------------- build the library objects from the (possibly defective) description
    void build(bool fresh_storage, bool keep_flags = false) {
        const uint16_t old_flags = tbl.flags;
        free(areas); free(entries);
        size_t na = spec.areas.size(), nr = spec.regs.size();
        // "lifted" tables: the model keeps its small coordinates, the library gets the same description moved up so that its highest
        // area or register ends exactly at the top of the 32-bit address space (address 0xffffffff is its last word)
        shift = 0;
        if (lift) {
            uint64_t top = 0;
            for (auto &a : spec.areas) top = std::max(top, (uint64_t)a.base + (a.size ? a.size : 1));   /* an area of no words still has a base inside the address space */
            for (auto &r : spec.regs) top = std::max(top, (uint64_t)r.addr + wsize(r.type));
            if (top > 0) shift = (uint32_t)(0x100000000ull - top);
        }
        spreadD = 0; split = 0;
        if (spread && !lift && spec.areas.size() >= 2) {
            uint64_t top = 0;
            for (auto &a : spec.areas) top = std::max(top, (uint64_t)a.base + (a.size ? a.size : 1));   /* an area of no words still has a base inside the address space */
            for (auto &r : spec.regs) top = std::max(top, (uint64_t)r.addr + wsize(r.type));
            for (size_t k = 1; k < spec.areas.size(); ++k) {
                uint64_t prev_end = (uint64_t)spec.areas[k - 1].base + spec.areas[k - 1].size;
                bool ascending = true; for (size_t q = 1; q < spec.areas.size(); ++q) if (spec.areas[q].base < spec.areas[q - 1].base) ascending = false;
                if (ascending && spec.areas[k].base > prev_end) {   // a real gap: nothing of the description lies in it?
                    bool clear = true; for (auto &r : spec.regs) if ((uint64_t)r.addr + wsize(r.type) > prev_end && r.addr < spec.areas[k].base) clear = false;
                    if (!clear) continue;
                    split = spec.areas[k].base;
                    static const uint64_t DS[] = {0x80000000ull, 0x7fffffffull, 0x80000001ull, 0xc0000000ull, 0};
                    uint64_t d = DS[(spread - 1) % 5]; if (d == 0 || d + top > 0x100000000ull) d = 0x100000000ull - top;
                    spreadD = (uint32_t)d; COUNT("probe.areas_half_the_address_space_apart"); break;
                }
            }
        }
        areas = (RegisterArea *)calloc(na + 1, sizeof(RegisterArea));
        entries = (RegisterEntry *)calloc(nr + 1, sizeof(RegisterEntry));
        if (macro && na == regsim_macro_nareas && nr == regsim_macro_nentries) { build_from_macros(fresh_storage, keep_flags, old_flags); return; }
        if (fresh_storage) { mem.clear(); mem.resize(na); cbstore.assign(na, {}); }
        for (size_t i = 0; i < na; ++i) {
            const AreaSpec &a = spec.areas[i];
            RegisterArea &A = areas[i];
            A.base = up(a.base); A.size = a.size;
            A.flags = (uint16_t)(((a.flags & AF_R) ? REG_AF_READABLE : 0) | ((a.flags & AF_W) ? REG_AF_WRITEABLE : 0) | ((a.flags & AF_SKIP) ? REG_AF_SKIP_DEFAULTS : 0));
            if (a.mem) {
                if (fresh_storage) { mem[i].reset(new GuardedBlock(a.size * 2)); }
                A.mem = (RegisterAtom *)mem[i]->p;
                A.read = reg_mem_read; A.write = a.has_write ? reg_mem_write : nullptr;
            } else {
                if (fresh_storage) { cbstore[i].resize(a.size); for (size_t w = 0; w < a.size; ++w) cbstore[i][w] = (uint16_t)(0x5a5a ^ (w * 0x1234 + i)); }
                A.mem = nullptr; A.read = a.has_read ? cb_read : nullptr; A.write = a.has_write ? cb_write : nullptr;
            }
        }
        // END sentinel area: all zero (calloc)
        for (size_t i = 0; i < nr; ++i) {
            const RegSpec &r = spec.regs[i];
            RegisterEntry &E = entries[i];
            E.type = (RegisterType)r.type; E.address = up(r.addr); E.default_value = mkvalu(r.type, r.def);
            E.user = (void *)&spec.regs[i];
            switch (r.ck) {
            case CK_NONE: E.check.type = REGV_TYPE_TRIVIAL; break;
            case CK_FAIL: E.check.type = REGV_TYPE_FAIL; break;
            case CK_MIN: E.check.type = REGV_TYPE_MIN; E.check.arg.min = mkvalu(r.type, r.a); break;
            case CK_MAX: E.check.type = REGV_TYPE_MAX; E.check.arg.max = mkvalu(r.type, r.a); break;
            case CK_RANGE: E.check.type = REGV_TYPE_RANGE; E.check.arg.range.min = mkvalu(r.type, r.a); E.check.arg.range.max = mkvalu(r.type, r.b); break;
            default: E.check.type = REGV_TYPE_CALLBACK; E.check.arg.cb = cb_validate; break;
            }
        }
        entries[nr].type = REG_TYPE_INVALID;
        memset(&tbl, 0, sizeof tbl);
        tbl.area = areas; tbl.entry = entries;
        if (keep_flags) tbl.flags = old_flags;   // the same table object whose description was edited: its state stays
        for (int h : be_hist) register_make_bigendian(&tbl, h != 0);   // the byte order may be requested repeatedly (a configuration routine that runs twice); the last request counts
        register_make_bigendian(&tbl, spec.be);
        g_sim = this;
    }
    void build_from_macros(bool fresh_storage, bool keep_flags, uint16_t old_flags) {
        const size_t na = spec.areas.size(), nr = spec.regs.size();
        memcpy(areas, regsim_macro_areas, (na + 1) * sizeof(RegisterArea));
        memcpy(entries, regsim_macro_entries, (nr + 1) * sizeof(RegisterEntry));
        if (fresh_storage) { mem.clear(); mem.resize(na); cbstore.assign(na, {}); }
        for (size_t i = 0; i < na; ++i) {
            const AreaSpec &a = spec.areas[i]; RegisterArea &A = areas[i];
            if (A.base != a.base || A.size != a.size || A.flags != (REG_AF_READABLE | REG_AF_WRITEABLE) || (a.mem && (A.mem == nullptr || A.read != reg_mem_read || A.write != reg_mem_write)) || (!a.mem && (A.mem != nullptr || A.read != regsim_macro_read || A.write != regsim_macro_write)))
                c.fail("macro.area", "area %zu written with the header's area macro does not carry the fields given to the macro", i);
            if (a.mem) { if (fresh_storage) mem[i].reset(new GuardedBlock(a.size * 2)); A.mem = (RegisterAtom *)mem[i]->p; }
            else { if (fresh_storage) { cbstore[i].resize(a.size); for (size_t w = 0; w < a.size; ++w) cbstore[i][w] = (uint16_t)(0x5a5a ^ (w * 0x1234 + i)); } A.read = cb_read; A.write = cb_write; }
        }
        for (size_t i = 0; i < nr; ++i) {
            RegisterEntry &E = entries[i];
            void *want_user = MACRO_REGS[i].x ? (void *)&regsim_macro_user[i] : nullptr;
            if (E.user != want_user) c.fail("macro.user", "register %zu: the user pointer is not what the macro was given", i);
            if (E.check.type == REGV_TYPE_CALLBACK && E.check.arg.cb != regsim_macro_cb) c.fail("macro.validator", "register %zu: the validator is not the function the macro was given", i);
            if (E.check.type == REGV_TYPE_CALLBACK) E.check.arg.cb = cb_validate;
            E.user = (void *)&spec.regs[i];
        }
        if (entries[nr].type != REG_TYPE_INVALID) c.fail("macro.end", "REGISTER_ENTRY_END is not recognisable as the end of the entries");
        memset(&tbl, 0, sizeof tbl);
        tbl.area = areas; tbl.entry = entries;
        if (keep_flags) tbl.flags = old_flags;
        for (int h : be_hist) register_make_bigendian(&tbl, h != 0);   // the byte order may be requested repeatedly (a configuration routine that runs twice); the last request counts
        register_make_bigendian(&tbl, spec.be);
        g_sim = this;
    }
    // a table with more than 2^16 registers (handles that do not fit 16 bits): u16 registers one after the other in one memory area
    static TableSpec bulk_spec(size_t n, bool be) {
        TableSpec t; t.be = be;
        AreaSpec a; a.base = 0x10; a.size = (uint32_t)n + 8; a.mem = true; a.flags = AF_R | AF_W; a.has_write = true; t.areas.push_back(a);
        t.regs.reserve(n);
        for (size_t i = 0; i < n; ++i) {
            RegSpec g; g.type = T_U16; g.addr = a.base + (uint32_t)i; g.def = 50 + (i % 7);
            switch (i % 5) { case 0: g.ck = CK_NONE; break; case 1: g.ck = CK_MIN; g.a = 10; break; case 2: g.ck = CK_MAX; g.a = 100; break; default: g.ck = CK_RANGE; g.a = 10; g.b = 100; }
            t.regs.push_back(g);
        }
        return t;
    }
    static TableSpec macro_spec(bool be) {
        TableSpec t; t.be = be;
        for (auto &a : MACRO_AREAS) { AreaSpec s; s.base = a.base; s.size = a.size; s.mem = a.mem != 0; s.flags = a.flags; s.has_write = a.has_write != 0; t.areas.push_back(s); }
        for (auto &r : MACRO_REGS) { RegSpec g; g.type = r.type; g.addr = r.addr; g.ck = r.ck; g.a = r.a; g.b = r.b; g.rule = r.rule; g.def = r.def; t.regs.push_back(g); }
        return t;
    }
    uint16_t *actual(size_t ai) { return spec.areas[ai].mem ? (uint16_t *)mem[ai]->p : cbstore[ai].data(); }
    void sync_model_from_actual() {
        M.resize(spec.areas.size());
        for (size_t i = 0; i < spec.areas.size(); ++i) M[i].assign(actual(i), actual(i) + spec.areas[i].size);
        touched.assign(spec.regs.size(), 0);
        for (size_t i = 0; i < spec.regs.size(); ++i) touched[i] = register_was_touched(&tbl, (RegisterHandle)i);
    }
    bool storage_matches_model(size_t *ai = nullptr, size_t *wi = nullptr) {
        for (size_t i = 0; i < spec.areas.size(); ++i)
            for (size_t w = 0; w < spec.areas[i].size; ++w)
                if (actual(i)[w] != M[i][w]) { if (ai) *ai = i; if (wi) *wi = w; return false; }
        return true;
    }
    // model word access by flat address
    bool mapped(uint32_t a) const { return spec.area_of_addr(a) >= 0; }
    uint16_t &mword(uint32_t a) { int ai = spec.area_of_addr(a); return M[(size_t)ai][a - spec.areas[(size_t)ai].base]; }
    uint16_t aword(uint32_t a) { int ai = spec.area_of_addr(a); return actual((size_t)ai)[a - spec.areas[(size_t)ai].base]; }
    // register content in the model
    uint64_t reg_bits(size_t ri) { const RegSpec &r = spec.regs[ri]; uint16_t w[4]; for (unsigned k = 0; k < wsize(r.type); ++k) w[k] = mword(r.addr + k); return decode_bits(r.type, spec.be, w); }
    bool reg_decodes(size_t ri) { return float_ok(spec.regs[ri].type, reg_bits(ri)); }
    bool reg_ok(size_t ri) { return reg_decodes(ri) && satisfies(spec.regs[ri], reg_bits(ri)); }
    void reg_store(size_t ri, uint64_t bits) { const RegSpec &r = spec.regs[ri]; uint16_t w[4]; encode(r.type, bits, spec.be, w); for (unsigned k = 0; k < wsize(r.type); ++k) mword(r.addr + k) = w[k]; }
    // the same from the actual storage (for the inductive C05 invariant)
    bool actual_reg_ok(size_t ri) {
        const RegSpec &r = spec.regs[ri]; uint16_t w[4];
        for (unsigned k = 0; k < wsize(r.type); ++k) w[k] = aword(r.addr + k);
        uint64_t b = decode_bits(r.type, spec.be, w);
        return float_ok(r.type, b) && satisfies(r, b);
    }
};

// the second task (see Sim::maybe_intrude): a little table of its own in plain memory - initialise, typed sets and gets, a block write and a block read
static void second_table_job(Ctx &c, int64_t arg) {
    static RegisterAtom mem2[8];
    RegisterArea areas2[2]; RegisterEntry entries2[5];
    memset(areas2, 0, sizeof areas2); memset(entries2, 0, sizeof entries2);
    areas2[0].read = reg_mem_read; areas2[0].write = reg_mem_write; areas2[0].flags = REG_AF_READABLE | REG_AF_WRITEABLE; areas2[0].base = 0x40; areas2[0].size = 8; areas2[0].mem = mem2;
    entries2[0].type = REG_TYPE_UINT16; entries2[0].address = 0x40; entries2[0].default_value.u16 = 5; entries2[0].check.type = REGV_TYPE_RANGE; entries2[0].check.arg.range.min.u16 = 1; entries2[0].check.arg.range.max.u16 = 60000;
    entries2[1].type = REG_TYPE_UINT32; entries2[1].address = 0x41; entries2[1].default_value.u32 = 7; entries2[1].check.type = REGV_TYPE_TRIVIAL;
    entries2[2].type = REG_TYPE_SINT64; entries2[2].address = 0x43; entries2[2].default_value.s64 = -9; entries2[2].check.type = REGV_TYPE_MIN; entries2[2].check.arg.min.s64 = -1000000;
    entries2[3].type = REG_TYPE_UINT16; entries2[3].address = 0x47; entries2[3].default_value.u16 = 1; entries2[3].check.type = REGV_TYPE_TRIVIAL;
    entries2[4].type = REG_TYPE_INVALID;
    RegisterTable t2; memset(&t2, 0, sizeof t2); t2.area = areas2; t2.entry = entries2;
    const bool be = (arg & 1) != 0; register_make_bigendian(&t2, be);
    RegisterInit ri = register_init(&t2);
    const uint16_t v16 = (uint16_t)(1 + (arg >> 1) % 59999); const uint32_t v32 = (uint32_t)(arg * 2654435761u); const int64_t v64 = (int64_t)(arg * 40503) - 70000;
    RegisterAccess a1 = register_set(&t2, 0, mkval(T_U16, v16)), a2 = register_set(&t2, 1, mkval(T_U32, v32)), a3 = register_set(&t2, 2, mkval(T_S64, (uint64_t)v64));
    RegisterAccess a4 = register_set(&t2, 0, mkval(T_U16, 0));   // violates the range: must be refused
    RegisterAtom w1[1] = {(RegisterAtom)(arg & 0xffff)}; RegisterAccess a5 = register_block_write(&t2, 0x47, 1, w1);
    RegisterValue g0, g1, g2; RegisterAccess b0 = register_get(&t2, 0, &g0), b1 = register_get(&t2, 1, &g1), b2 = register_get(&t2, 2, &g2);
    RegisterAtom rd[8]; RegisterAccess a6 = register_block_read(&t2, 0x40, 8, rd);
    uint16_t want[8]; encode(T_U16, v16, be, want); encode(T_U32, v32, be, want + 1); encode(T_S64, (uint64_t)v64, be, want + 3); want[7] = w1[0];
    bool ok = ri.code == REG_INIT_SUCCESS && a1.code == REG_ACCESS_SUCCESS && a2.code == REG_ACCESS_SUCCESS && a3.code == REG_ACCESS_SUCCESS && a4.code == REG_ACCESS_RANGE && a5.code == REG_ACCESS_SUCCESS
           && b0.code == REG_ACCESS_SUCCESS && b1.code == REG_ACCESS_SUCCESS && b2.code == REG_ACCESS_SUCCESS && a6.code == REG_ACCESS_SUCCESS
           && g0.value.u16 == v16 && g1.value.u32 == v32 && g2.value.s64 == v64 && memcmp(rd, want, sizeof want) == 0 && memcmp(mem2, want, sizeof want) == 0;
    COUNT("probe.second_table_worked_during_a_callback");
    if (!ok) c.fail("intruder.table", "a second table (byte order %s) that was initialised, set, block-written and read back while another table's callback was pending got wrong results (init %d, sets %d %d %d %d %d, gets %d %d %d, read %d)", be ? "big" : "little", (int)ri.code, (int)a1.code, (int)a2.code, (int)a3.code, (int)a4.code, (int)a5.code, (int)b0.code, (int)b1.code, (int)b2.code, (int)a6.code);
}
void Sim::maybe_intrude() {
    if (intrude_at < 0 || intruded) { ++seam_calls_op; return; }
    if ((int64_t)seam_calls_op++ != intrude_at) return;
    intruded = true;
    Sim *me = g_sim; second_table_job(c, intrude_arg); g_sim = me;
}

// ------------------------------------------------------------------------------------------------
struct RegHarness : Harness {
    const char *name() const override { return "regsim"; }
    std::vector<std::string> props() const override { return {"C01", "C02", "C03", "C04", "C05"}; }
    uint64_t runs(const std::string &p, const Tier &t) const override {
        if (p == "C04") return t.thorough() ? 12000000 : 1000000;
        return t.thorough() ? 4000000 : 500000;
    }
    std::vector<std::string> probes(const std::string &p) const override {
        if (p == "C01") return {"handle_eq_entries", "handle_beyond", "float_nan", "float_inf", "float_subnormal", "float_negative_zero", "type_mismatch_refused",
                                "constraint_refused", "always_fail_refused", "set_accepted", "unsafe_bypasses_constraint", "callback_area_set", "get_undecodable_storage", "big_endian_table", "sanitise_left_through_error_path", "first_init_failed_then_retried", "reinit_after_register_moved_within_its_area", "value_objects_with_stale_octets", "byte_order_requested_repeatedly", "areas_half_the_address_space_apart", "table_written_with_header_macros", "table_ends_at_top_of_address_space", "area_wider_than_64k_words"};
        if (p == "C02") return {"write_inside_64bit_register", "partial_overlap_violates_constraint", "block_spans_two_areas", "block_into_readonly", "block_into_hole",
                                "block_write_accepted", "block_decode_failure", "zero_length_write", "readonly_not_at_request_start", "reinit_after_registers_removed", "reinit_after_register_moved_within_its_area", "block_of_64k_words_or_more", "value_objects_with_stale_octets", "byte_order_requested_repeatedly", "areas_half_the_address_space_apart", "table_written_with_header_macros", "table_ends_at_top_of_address_space", "area_wider_than_64k_words", "request_ends_at_last_address"};
        if (p == "C03") return {"read_write_only_area_mid_area", "read_in_two_steps", "read_spans_two_areas", "read_into_hole", "zero_length_read", "iteration_starts_in_gap", "iteration_starts_mid_register",
                                "iteration_stopped_by_callback", "iteration_negative_callback", "iteration_visits_several", "reinit_given_up_for_want_of_an_entry_list", "reinit_after_registers_removed", "reinit_after_register_moved_within_its_area", "area_without_read_callback", "value_objects_with_stale_octets", "byte_order_requested_repeatedly", "areas_half_the_address_space_apart", "table_written_with_header_macros", "table_ends_at_top_of_address_space", "area_wider_than_64k_words", "request_ends_at_last_address"};
        if (p == "C04") return {"defect_no_areas", "defect_areas_swapped", "defect_area_overlap", "defect_regs_swapped", "defect_reg_overlap", "defect_reg_straddles_area_end",
                                "defect_reg_in_hole", "defect_bad_default", "wellformed_accepted", "restart_over_surviving_callback_storage", "ops_report_uninitialised", "empty_area_between_populated", "reinit_of_initialised_table_rejected", "reinit_after_registers_removed", "reinit_after_register_moved_within_its_area", "value_objects_with_stale_octets", "byte_order_requested_repeatedly", "areas_half_the_address_space_apart", "table_written_with_header_macros", "table_ends_at_top_of_address_space", "area_wider_than_64k_words"};
        return {"invariant_checked_ops", "refused_op_left_storage_unchanged", "bit_set_exact", "bit_clear_exact", "bit_op_refused_signed_or_float", "sanitise_reset_some_kept_some",
                "corrupt_then_sanitise", "block_write_refused_by_constraint", "sanitise_left_through_error_path", "sanitise_with_io_error_kept_valid_registers", "reinit_after_registers_removed", "reinit_after_register_moved_within_its_area", "value_objects_with_stale_octets", "byte_order_requested_repeatedly", "areas_half_the_address_space_apart", "table_written_with_header_macros", "table_ends_at_top_of_address_space", "area_wider_than_64k_words", "request_ends_at_last_address"};
    }
    Json describe(const std::string &p) const override {
        Json d = Json::obj();
        Json real = Json::arr(); real.push("src/registers/core.c"); real.push("include/ufw/binary-format.h as used by it");
        Json stubs = Json::arr(); stubs.push("callback-backed areas: word store with access log and bounds monitor behind RegisterArea.read/write");
        stubs.push("validator callbacks: deterministic harness rules (even / not-equal-k / multiple-of-4-and-<=m)");
        d["real"] = real; d["stubs"] = stubs;
        Json as = Json::arr();
        std::string common = "tables are generated per run: 1-3 areas (memory or callback backed, RW/RO/WO/skip-defaults/no-write-callback, gaps, adjacency), 0-6 registers over 8 types and 6 constraint kinds, little or big endian (also: the header-macro table, tables of more than 2^16 registers, tables lifted to the top of the address space or spread over it); histories may re-configure the live table (registers removed, one register moved in place inside its area, a re-configuration given up) and run register_init again; a second table may be worked on inside a callback of the first; ";
        if (p == "C01") {
            d["rule"] = common + "ops: set, set_unsafe (correctly typed), get, default with valid and invalid handles (entries, entries+1, huge) and boundary-biased values incl. all float classes; out-of-band storage corruption to reach undecodable content. Non-trivial = at least one typed op on an initialised table; distinct = distinct execution fingerprints";
            as.push("partial claim: the property's exhaustive 16-bit value enumeration is input-space enumeration and is sampled (boundary-biased), not enumerated");
            as.push("refusal of a non-finite float may be reported as RANGE or INVALID (the property only demands refusal); a typed set into an area without write callback: only 'refused, nothing changed'");
            as.push("set_unsafe is only called with correctly typed values (a mistyped value trips the library's own assert)");
        } else if (p == "C02") {
            d["rule"] = common + "ops: block_write(address, words) over a window covering all areas, holes and edges; words are current content with slices replaced by boundary / violating / non-finite register encodings; out-of-band corruption evolves the content. Non-trivial = at least one block write; distinct = distinct execution fingerprints";
            as.push("when several failure classes apply any applicable (class, first address of that class inside the request) is accepted");
            as.push("an always-fail register makes every overlapping block write fail (out-of-range class)");
        } else if (p == "C03") {
            d["rule"] = common + "ops: block_read(address, n) into an exact-size buffer, foreach_in(address, length) with a scripted callback (0 / positive / negative at the k-th visit); content evolved by out-of-band writes. Non-trivial = at least one read or iteration; distinct = distinct execution fingerprints";
            as.push("partial claim: decided for the reads/iterations inside generated histories; the property's full window enumeration is sampled");
            as.push("nothing of a description extends beyond the address space, and a request that would run over its end is cut so that it ends exactly at address 0xffffffff (what lies beyond the last address is undefined); 1 plan in 12 is lifted (library sees the description moved up to end at the top of the address space), 1 table in 40 has an area wider than 2^16 words");
        } else if (p == "C04") {
            d["rule"] = "descriptions are generated well-formed and then perturbed by at most one defect (no areas, areas swapped, area overlap by one word, registers swapped, register overlap by one word, register straddling an area end, register in a hole, default outside constraint / non-finite); init, post-init state, operations after a failed init, restart over surviving callback storage. Non-trivial = register_init ran; distinct = distinct execution fingerprints";
            as.push("partial claim: the property's systematic layout grid is enumeration and is sampled");
            as.push("where rule-class order and register order disagree about which violation is first (hole vs default on different registers) both answers are accepted");
            as.push("callback areas always provide a read callback");
        } else {
            d["rule"] = common + "ops: set, bit_set, bit_clear, block_write, sanitise interleaved with out-of-band corruption; invariant evaluated on the real storage before/after every checked op. Non-trivial = at least one checked op; distinct = distinct execution fingerprints";
            as.push("the invariant is inductive: a register that did not satisfy its constraint before an operation (skip-defaults area, corruption) is not required to satisfy it after, except after sanitise");
            as.push("sanitise is judged on tables without always-fail registers, with valid defaults and with write callbacks on all areas, as the property says");
        }
        d["assumptions"] = as;
        return d;
    }

    // ------------------------------------------------------------ generation
    static uint64_t interesting(Rng &r, int type, const RegSpec *reg) {
        uint64_t m = tmask(type);
        if (is_float(type)) {
            static const uint32_t F32[] = {0x00000000, 0x80000000, 0x3f800000, 0xbf800000, 0x7f800000, 0xff800000, 0x7fc00000, 0x7f800001, 0x00000001, 0x007fffff, 0x00800000, 0x7f7fffff, 0xff7fffff, 0x41200000};
            static const uint64_t F64[] = {0, 0x8000000000000000ull, 0x3ff0000000000000ull, 0xbff0000000000000ull, 0x7ff0000000000000ull, 0xfff0000000000000ull, 0x7ff8000000000000ull, 0x7ff0000000000001ull,
                                           1, 0x000fffffffffffffull, 0x0010000000000000ull, 0x7fefffffffffffffull, 0xffefffffffffffffull, 0x4024000000000000ull};
            if (reg && r.chance(1, 3)) { uint64_t b = r.chance(1, 2) ? reg->a : reg->b; return b & m; }
            if (r.chance(1, 6)) return r.next() & m;
            return type == T_F32 ? F32[r.below(14)] : F64[r.below(14)];
        }
        if (reg && r.chance(1, 2)) {
            uint64_t b = r.chance(1, 2) ? reg->a : (r.chance(1, 2) ? reg->b : reg->def);
            int64_t d = r.range(-2, 2);
            return (b + (uint64_t)d) & m;
        }
        switch (r.below(10)) {
        case 0: return 0; case 1: return m; case 2: return m >> 1; case 3: return (m >> 1) + 1; case 4: return 1; case 5: return r.below(16);
        case 6: case 7: { unsigned k = (unsigned)r.below(16 * wsize(type)); uint64_t b = 1ull << k; int64_t d = r.range(-2, 2); return (r.chance(1, 2) ? b + (uint64_t)d : ~b + (uint64_t)d) & m; }   // around a power of two (or its complement): every bit position is a boundary for something
        default: return r.next() & m;
        }
    }
    static uint64_t finite_value(Rng &r, int type) {
        for (int i = 0; i < 8; ++i) { uint64_t v = interesting(r, type, nullptr); if (float_ok(type, v)) return v; }
        return 0;
    }
    static void gen_constraint(Rng &r, RegSpec &g) {
        g.ck = (int)r.below(6);
        g.def = finite_value(r, g.type);
        uint64_t m = tmask(g.type);
        auto near_ = [&](int64_t lo, int64_t hi) -> uint64_t {   // a value in [def+lo, def+hi] in the type's order, clamped (ints); floats: def or other finite
            if (is_float(g.type)) return r.chance(1, 2) ? g.def : finite_value(r, g.type);
            int64_t d = r.range(lo, hi);
            if (is_signed(g.type)) {
                __int128 v = (__int128)sint_of(g.type, g.def) + d;
                __int128 mn = -((__int128)1 << (16 * wsize(g.type) - 1)), mx = ((__int128)1 << (16 * wsize(g.type) - 1)) - 1;
                if (v < mn) v = mn; if (v > mx) v = mx;
                return (uint64_t)(int64_t)v & m;
            }
            __int128 v = (__int128)(g.def & m) + d; if (v < 0) v = 0; if (v > (__int128)m) v = m;
            return (uint64_t)v;
        };
        switch (g.ck) {
        case CK_MIN: g.a = near_(-3, 0); if (!ge(g.type, g.def, g.a)) g.a = g.def; break;
        case CK_MAX: g.a = near_(0, 3); if (!le(g.type, g.def, g.a)) g.a = g.def; break;
        case CK_RANGE: g.a = near_(-3, 0); g.b = near_(0, 3); if (!ge(g.type, g.def, g.a)) g.a = g.def; if (!le(g.type, g.def, g.b)) g.b = g.def; break;
        case CK_CB:
            g.rule = (int)r.below(3);
            if (g.rule == 0) { if (is_float(g.type)) { if (!ge(g.type, g.def, 0)) g.def = 0; } else g.def &= ~1ull; }
            else if (g.rule == 1) { g.a = (g.def + 1 + r.below(3)) & m; }
            else { if (!is_float(g.type)) g.def &= ~3ull & m; g.b = near_(0, 8); if (!le(g.type, g.def, g.b)) g.b = g.def; }
            break;
        default: break;
        }
    }
    static Json spec_json(const TableSpec &t) {
        Json j = Json::obj(); j["be"] = t.be;
        Json as = Json::arr();
        for (auto &a : t.areas) { Json e = Json::arr(); e.push((long long)a.base); e.push((long long)a.size); e.push(a.mem ? 1 : 0); e.push((long long)a.flags); e.push(a.has_write ? 1 : 0); e.push(a.has_read ? 1 : 0); as.push(e); }
        j["areas"] = as;
        Json rs = Json::arr();
        for (auto &g : t.regs) { Json e = Json::arr(); e.push(g.type); e.push((long long)g.addr); e.push(g.ck); e.push(u64hex(g.a)); e.push(u64hex(g.b)); e.push(g.rule); e.push(u64hex(g.def)); rs.push(e); }
        j["regs"] = rs;
        return j;
    }
    static TableSpec spec_from(const Json &j) {
        TableSpec t; t.be = j.geti("be") != 0;
        const Json &as = j.get("areas");
        for (size_t i = 0; i < as.size() && i < 6; ++i) {
            const Json &e = as.at(i); AreaSpec a;
            int64_t b = e.ati(0, 0), s = e.ati(1, 1);
            if (b < 0) b = 0; if (b > 0x60000) b = 0x60000; if (s < 0) s = 0; if (s > 0x10040) s = 0x10040;
            a.base = (uint32_t)b; a.size = (uint32_t)s; a.mem = e.ati(2, 1) != 0; a.flags = (unsigned)e.ati(3, 3) & 7; a.has_write = e.ati(4, 1) != 0; a.has_read = a.mem || e.ati(5, 1) != 0;
            if (a.size == 0 && a.base == 0 && !a.mem && !a.has_read && !a.has_write) break;   // this is what the end marker of an area list looks like: the list ends here for library and model alike
            t.areas.push_back(a);
        }
        const Json &rs = j.get("regs");
        for (size_t i = 0; i < rs.size() && i < 12; ++i) {
            const Json &e = rs.at(i); RegSpec g;
            g.type = (int)(e.ati(0, 0) & 7); int64_t ad = e.ati(1, 0); if (ad < 0) ad = 0; if (ad > 0x7ffff) ad = 0x7ffff; g.addr = (uint32_t)ad;
            g.ck = (int)(e.ati(2, 0) % 6); if (g.ck < 0) g.ck = 0;
            g.a = e.at(3).is_str() ? hexu64(e.at(3).s) : (uint64_t)e.ati(3, 0);
            g.b = e.at(4).is_str() ? hexu64(e.at(4).s) : (uint64_t)e.ati(4, 0);
            g.rule = (int)(e.ati(5, 0) % 3); if (g.rule < 0) g.rule = 0;
            g.def = e.at(6).is_str() ? hexu64(e.at(6).s) : (uint64_t)e.ati(6, 0);
            t.regs.push_back(g);
        }
        return t;
    }
    // a well-formed description
    static TableSpec gen_table(Rng &r, const std::string &prop) {
        TableSpec t; t.be = r.chance(1, 2);
        int na = (int)r.range(1, 3);
        uint32_t cur = (uint32_t)r.range(0, 6);
        int budget_regs = (int)r.range(0, 6);
        // rarely one area is wider than 2^16 words, with registers on both sides of in-area offset 0x10000 and at its end
        const int wide = r.chance(1, 40) ? (int)r.below((uint64_t)na) : -1;
        if (wide >= 0 && budget_regs < 3) budget_regs = 3 + (int)r.below(3);
        for (int i = 0; i < na; ++i) {
            AreaSpec a;
            a.base = cur; a.size = (uint32_t)r.range(1, 12);
            if (i == wide) a.size = 0x10000u + (uint32_t)r.range(0, 0x20);
            a.mem = r.chance(1, 2);
            switch (r.below(8)) {
            case 0: a.flags = AF_R; break;                                   // read-only by flag
            case 1: a.flags = AF_W; break;                                   // write-only
            case 2: a.flags = AF_R | AF_W | AF_SKIP; break;                  // skip defaults
            case 3: a.flags = AF_R | AF_W; a.has_write = false; break;       // no write callback
            case 4: a.flags = AF_R | AF_W | AF_SKIP; a.has_write = false; break;   // both at once: a preloaded constant table
            default: a.flags = AF_R | AF_W;
            }
            if (prop == "C05" && r.chance(2, 3)) { a.flags = AF_R | AF_W; a.has_write = true; }
            if (prop == "C03" && !a.mem && r.chance(1, 5)) a.has_read = false;   // a callback area without a read callback (a write-only mailbox), whatever its flags say
            // an area of no words at all (an optional block configured out): it maps nothing, holds nothing and must not disturb its neighbours
            if ((prop == "C01" || prop == "C03") && i != wide && r.chance(1, 7) && (a.mem || a.has_read || a.has_write || a.base != 0)) a.size = 0;   // C02 / C04 / C05: see DESIGN section 8 (open observations)
            t.areas.push_back(a);
            // registers in this area
            uint32_t off = (uint32_t)r.range(0, 2);
            while (budget_regs > 0 && off < a.size) {
                RegSpec g; g.type = (int)r.below(8);
                if (r.chance(1, 3)) g.type = r.chance(1, 2) ? T_U64 : (r.chance(1, 2) ? T_F64 : T_S64);
                if (off + wsize(g.type) > a.size) { if (r.chance(1, 2)) break; g.type = T_U16; if (off + 1 > a.size) break; }
                g.addr = a.base + off;
                gen_constraint(r, g);
                if (prop == "C05" && g.ck == CK_FAIL && r.chance(3, 4)) g.ck = CK_RANGE, g.a = g.def, g.b = g.def;
                t.regs.push_back(g); --budget_regs;
                off += wsize(g.type) + (uint32_t)(r.chance(1, 2) ? 0 : r.range(0, 2));
                if (i == wide && off < 0xfff0u) { off = r.chance(1, 4) ? a.size - (uint32_t)r.range(1, 6) : 0xfff8u + (uint32_t)r.range(0, 10); continue; }
                if (r.chance(1, 5)) break;
            }
            cur = a.base + a.size + (uint32_t)(r.chance(1, 2) ? 0 : r.range(1, 4));
        }
        return t;
    }
    // register encodings placed into a block-write word list
    static void place_value(Json &words, uint32_t addr, const TableSpec &t, const RegSpec &g, uint64_t bits) {
        uint16_t w[4]; encode(g.type, bits, t.be, w);
        for (unsigned k = 0; k < wsize(g.type); ++k) {
            int64_t pos = (int64_t)g.addr + k - (int64_t)addr;
            if (pos >= 0 && (size_t)pos < words.a.size()) words.a[(size_t)pos] = Json((long long)w[k]);
        }
    }
    static uint32_t window_hi(const TableSpec &t) { uint32_t hi = 0; for (auto &a : t.areas) hi = std::max(hi, a.base + a.size); return hi + 3; }

    Json gen_op(Rng &r, const std::string &prop, const TableSpec &t, const std::vector<std::string> &kinds) {
        Json o = Json::obj();
        const std::string k = r.pick(kinds);
        o["op"] = k;
        size_t nr = t.regs.size();
        uint32_t hi = window_hi(t);
        auto pick_handle = [&]() -> int64_t {
            if (nr > 65536 && r.chance(1, 2)) return (int64_t)r.range(65530, (int64_t)nr - 1);   // handles on both sides of 2^16
            if (r.chance(1, 10) || nr == 0) { switch (r.below(3)) { case 0: return (int64_t)nr; case 1: return (int64_t)nr + 1; default: return 0x7fffffff; } }
            return (int64_t)r.below(nr);
        };
        if (k == "set" || k == "set_unsafe" || k == "bit_set" || k == "bit_clear") {
            int64_t h = (prop == "C01" || nr > 65536) ? pick_handle() : (nr ? (int64_t)r.below(nr) : 0);
            o["h"] = (long long)h;
            const RegSpec *g = (h >= 0 && (size_t)h < nr) ? &t.regs[(size_t)h] : nullptr;
            int type = g ? g->type : (int)r.below(8);
            if (k != "set_unsafe" && r.chance(1, 8)) type = (int)r.below(8);   // type mismatch
            o["t"] = type;
            uint64_t v = interesting(r, type, g && g->type == type ? g : nullptr);
            if ((k == "bit_set" || k == "bit_clear") && r.chance(1, 2)) v = 1ull << r.below(16 * wsize(type));
            o["v"] = u64hex(v);
        } else if (k == "get" || k == "default") {
            o["h"] = (long long)pick_handle();
        } else if (k == "bw" || k == "br" || k == "corrupt") {
            uint32_t addr = (uint32_t)r.range(0, hi);
            int64_t n = r.chance(1, 12) ? 0 : r.range(1, r.chance(1, 3) ? (hi > 1024 ? 64 : hi) : 6);
            // bias: start inside / at the edges of a register
            if (nr && r.chance(2, 3)) { const RegSpec &g = t.regs[nr > 65536 && r.chance(1, 2) ? (size_t)r.range(65530, (int64_t)nr - 1) : r.below(nr)]; int64_t a = (int64_t)g.addr + r.range(-1, (int64_t)wsize(g.type)); if (a < 0) a = 0; addr = (uint32_t)a; if (r.chance(1, 2)) n = r.range(1, wsize(g.type) + 1); }
            if (k == "corrupt") { // stay inside one area so that the overwrite is well-defined
                const AreaSpec &a = t.areas[r.below(t.areas.size())]; addr = a.base + (uint32_t)(a.size > 65540 && r.chance(1, 2) ? r.range(65530, (int64_t)a.size - 1) : (a.size ? r.below(a.size) : 0)); if (n < 1) n = 1; if (addr + n > a.base + a.size) n = a.base + a.size - addr;
            }
            o["addr"] = (long long)addr;
            if (k == "bw" && hi > 0x10000 && nr && r.chance(1, 6)) {
                // a block of 2^16 words and more over a wide area: it starts near the area's base and reaches a register that lies 65536 or more words behind
                // the start; every word keeps its content except the ones spelled out (register encodings, valid or not)
                const AreaSpec *wa = nullptr; for (auto &a2 : t.areas) if (a2.size > 0x10000u) wa = &a2;
                if (wa) {
                    addr = wa->base + (uint32_t)r.range(0, 3);
                    int64_t wn = (int64_t)(wa->base + wa->size - addr) - r.range(0, 3); if (wn < 0x10000) wn = 0x10000;
                    if (r.chance(1, 3)) wn += (int64_t)r.range(1, 6);   // runs on behind the area
                    Json wset = Json::arr();
                    for (size_t ri = 0; ri < nr; ++ri) {
                        const RegSpec &g = t.regs[ri];
                        if (g.addr < addr || g.addr + wsize(g.type) > addr + (uint64_t)wn || r.chance(1, 3)) continue;
                        uint16_t wv[4]; encode(g.type, interesting(r, g.type, &g), t.be, wv);
                        for (unsigned q = 0; q < wsize(g.type); ++q) { if (r.chance(1, 8)) continue; Json pr = Json::arr(); pr.push((long long)(g.addr + q - addr)); pr.push((long long)wv[q]); wset.push(pr); }
                    }
                    o["addr"] = (long long)addr; o["wn"] = (long long)wn; o["wset"] = wset; o["w"] = Json::arr();
                    return o;
                }
            }
            if (k == "br") { o["n"] = (long long)n; if (r.chance(1, 4)) o["two"] = 1; return o; }   // two: the documented two-step form (hole check, then the unchecked reader)
            Json words = Json::arr();
            for (int64_t i = 0; i < n; ++i) words.push(k == "corrupt" ? Json((long long)r.below(65536)) : Json(-1));
            // replace slices by register encodings
            for (size_t ri = 0; ri < nr; ++ri) {
                const RegSpec &g = t.regs[ri];
                if (g.addr + wsize(g.type) <= addr || g.addr >= addr + n) continue;
                if (r.chance(1, 3)) continue;
                place_value(words, addr, t, g, interesting(r, g.type, &g));
            }
            if (k == "bw" && r.chance(1, 4)) for (auto &w : words.a) if (w.i < 0 && r.chance(1, 2)) w = Json((long long)r.below(65536));
            o["w"] = words;
        } else if (k == "sanitise_any") {
            o["cbfail"] = (long long)(r.chance(1, 2) ? -1 : (int64_t)r.below(6));   // an I/O error at the k-th callback-area access of the call, or none
        } else if (k == "redefect") {
            o["d"] = (long long)r.below(9); o["salt"] = (long long)r.below(1 << 20);
        } else if (k == "reedit" || k == "move" || k == "givenup") {
            o["salt"] = (long long)r.below(1 << 20);
        } else if (k == "foreach") {
            uint32_t addr = (uint32_t)r.range(0, hi);
            if (nr && r.chance(1, 2)) { const RegSpec &g = t.regs[r.below(nr)]; int64_t a = (int64_t)g.addr + r.range(-2, (int64_t)wsize(g.type)); if (a < 0) a = 0; addr = (uint32_t)a; }
            o["addr"] = (long long)addr; o["n"] = (long long)(r.chance(1, 10) ? 0 : r.range(1, hi + 2));
            Json ret = Json::arr(); int m = (int)r.below(4); for (int i = 0; i < m; ++i) ret.push((long long)(r.chance(2, 3) ? 0 : (r.chance(1, 2) ? 1 + r.below(3) : -1 - (int64_t)r.below(3)))); o["ret"] = ret;
        }
        return o;
    }

    static void apply_defect(TableSpec &ts, int defect, Rng &r) {
        size_t na = ts.areas.size(), nr = ts.regs.size();
        switch (defect) {
        case 0: ts.areas.clear(); break;
        case 1: if (na >= 2) { size_t i = r.below(na - 1); std::swap(ts.areas[i], ts.areas[i + 1]); } break;
        case 2: if (na >= 2) { size_t i = 1 + r.below(na - 1); ts.areas[i].base = ts.areas[i - 1].base + ts.areas[i - 1].size - 1; } break;
        case 3: if (nr >= 2) { size_t i = r.below(nr - 1); std::swap(ts.regs[i], ts.regs[i + 1]); } break;
        case 4: if (nr >= 2) { size_t i = 1 + r.below(nr - 1); ts.regs[i].addr = ts.regs[i - 1].addr + wsize(ts.regs[i - 1].type) - 1; } break;
        case 5: if (nr >= 1 && na >= 1) { size_t i = r.below(nr); int ai = ts.area_of_addr(ts.regs[i].addr); if (ai >= 0 && wsize(ts.regs[i].type) > 1) ts.regs[i].addr = ts.areas[(size_t)ai].base + ts.areas[(size_t)ai].size - (uint32_t)r.range(1, wsize(ts.regs[i].type) - 1); } break;
        case 6: if (nr >= 1) { size_t i = r.below(nr); uint32_t hi = window_hi(ts); ts.regs[i].addr = r.chance(1, 2) ? hi + (uint32_t)r.below(4) : ts.regs[i].addr + (uint32_t)r.range(1, 6); } break;
        case 7: if (nr >= 1) { size_t i = r.below(nr); RegSpec &g = ts.regs[i];
                if (g.ck == CK_MIN) g.def = (g.a - 1) & tmask(g.type); else if (g.ck == CK_MAX) g.def = (g.a + 1) & tmask(g.type); else if (g.ck == CK_RANGE) g.def = (g.b + 1) & tmask(g.type);
                else if (g.ck == CK_CB && g.rule == 1) g.def = g.a; else if (is_float(g.type)) g.def = g.type == T_F32 ? 0x7fc00000 : 0x7ff8000000000000ull; } break;
        case 8: if (nr >= 1) { size_t i = r.below(nr); RegSpec &g = ts.regs[i]; if (is_float(g.type)) g.def = interesting(r, g.type, nullptr); else g.def = interesting(r, g.type, &g); } break;
        default: break;
        }
    }

    Json gen(const std::string &prop, Rng &r, const Tier &t, uint64_t) override {
        Json p = Json::obj();
        TableSpec ts = gen_table(r, prop);
        bool macro = prop != "C04" && r.chance(1, 12);   // the table written with the header's REG_* / area macros (every macro once)
        if (macro) ts = Sim::macro_spec(r.chance(1, 2));
        int64_t bulk = 0;
        if (!macro && prop != "C04" && r.chance(1, t.thorough() ? 1500 : 4000)) { static const int64_t BN[] = {65537, 65600, 66000, 70000}; bulk = BN[r.below(4)]; ts = Sim::bulk_spec((size_t)bulk, r.chance(1, 2)); }
        std::vector<std::string> kinds;
        if (prop == "C01") kinds = {"set", "set", "set", "set", "set_unsafe", "get", "get", "default", "corrupt", "sanitise_any", "move"};
        else if (prop == "C02") kinds = {"bw", "bw", "bw", "bw", "bw", "bw", "corrupt", "touchcheck", "reedit", "sanitise_any", "move"};
        else if (prop == "C03") kinds = {"br", "br", "br", "foreach", "foreach", "foreach", "corrupt", "corrupt", "reedit", "move", "givenup"};
        else if (prop == "C04") kinds = {"corrupt", "restart", "probe_ops", "poststate", "redefect", "reedit", "move"};
        else kinds = {"set", "set", "set", "bit_set", "bit_clear", "bw", "bw", "bw", "sanitise", "sanitise_any", "corrupt", "reedit", "move"};
        if (prop == "C04") {
            // perturb the description by at most one defect
            int defect = r.chance(1, 3) ? -1 : (int)r.below(9);
            p["defect"] = defect;
            if (defect == -1 && r.chance(1, 8)) { macro = true; ts = Sim::macro_spec(r.chance(1, 2)); }
            apply_defect(ts, defect, r);
        }
        if (prop != "C04" && r.chance(1, 5)) p["init_fault"] = (long long)r.below(8);
        if (r.chance(1, 3)) { Json bh = Json::arr(); int nb = (int)r.range(1, 3); for (int i = 0; i < nb; ++i) bh.push(r.chance(1, 2) ? 1 : 0); if (r.chance(1, 2)) bh.push(ts.be ? 1 : 0); p["be_hist"] = bh; }
        if (macro) p["macro"] = 1;
        else if (bulk) p["bulk"] = (long long)bulk;
        else if (r.chance(1, 12)) p["lift"] = 1;
        else if (r.chance(1, 12)) p["spread"] = (long long)r.range(1, 5);
        { static const int DIRT[] = {0, 0, 0, 0xff, 0xa5, 0x80, 0x01, 0x7f}; p["dirt"] = DIRT[r.below(8)]; p["dirt_tbl"] = r.chance(1, 2) ? 0 : DIRT[r.below(8)]; }
        if (bulk) { Json tj = Json::obj(); tj["be"] = ts.be; tj["areas"] = Json::arr(); tj["regs"] = Json::arr(); p["table"] = tj; } else
        p["table"] = spec_json(ts);
        Json ops = Json::arr();
        if (!ts.areas.empty()) {
            int n = (int)r.range(prop == "C04" ? 0 : 1, prop == "C04" ? 6 : (t.thorough() ? (r.chance(1, 8) ? 400 : 80) : 40));
            for (int i = 0; i < n; ++i) { Json o = gen_op(r, prop, ts, kinds); if (r.chance(1, 6)) { Json ij = Json::arr(); ij.push((long long)r.below(6)); ij.push((long long)r.below(1 << 20)); o["intrude"] = ij; } ops.push(o); }
        }
        p["ops"] = ops;
        return p;
    }

    // ------------------------------------------------------------ execution
    void exec(const Json &plan, Ctx &c) override {
        Sim S(c);
        S.spec = spec_from(plan.get("table"));
        const std::string &P = c.prop;
        for (auto &a : S.spec.areas) if (a.size > 0x10000u) { COUNT("probe.area_wider_than_64k_words"); break; }
        if (P != "C03") for (auto &a : S.spec.areas) a.has_read = true;   // only block reads and iteration are specified for areas without a read callback
        for (auto &a : S.spec.areas) if (!a.has_read) { COUNT("probe.area_without_read_callback"); break; }
        { const Json &bh = plan.get("be_hist"); for (size_t i = 0; i < bh.size() && i < 6; ++i) S.be_hist.push_back(bh.ati(i) != 0); if (!S.be_hist.empty()) COUNT("probe.byte_order_requested_repeatedly"); }
        if (plan.geti("bulk") > 0) { int64_t bn = plan.geti("bulk"); if (bn > 70000) bn = 70000; S.spec = Sim::bulk_spec((size_t)bn, plan.get("table").geti("be") != 0); if (bn > 65535) COUNT("probe.table_with_more_than_64k_registers"); }
        S.macro = plan.geti("bulk") <= 0 && plan.geti("macro") != 0;
        if (S.macro) { S.spec = Sim::macro_spec(plan.get("table").geti("be") != 0); COUNT("probe.table_written_with_header_macros"); }
        S.lift = !S.macro && plan.geti("lift") != 0;
        S.spread = (!S.macro && !S.lift && plan.geti("bulk") <= 0) ? (int)(plan.geti("spread") & 7) : 0;
        if (S.lift) COUNT("probe.table_ends_at_top_of_address_space");
        g_dirt = (uint8_t)(plan.geti("dirt") & 0xff); g_dirt_tbl = (uint8_t)(plan.geti("dirt_tbl") & 0xff);
        if (g_dirt != g_dirt_tbl) COUNT("probe.value_objects_with_stale_octets");
        S.build(true);
        // ---- initialisation
        std::vector<std::vector<uint16_t>> cb_before = S.cbstore;
        RegisterInit ri;
        if (P != "C04" && plan.geti("init_fault", -1) >= 0) {
            // history: the first initialisation hits a transient I/O error behind a callback area (while a default is loaded)
            // and fails; the application simply initialises again. Nothing is re-configured in between.
            S.cb_fail_in = plan.geti("init_fault", -1);
            RegisterInit first = register_init(&S.tbl);
            bool fired = S.cb_fail_in < 0 || first.code != REG_INIT_SUCCESS;
            S.cb_fail_in = -1;
            c.ev(EV_API, 99, (uint64_t)first.code, first.pos.address); c.execs++;
            if (first.code != REG_INIT_SUCCESS && fired) COUNT("probe.first_init_failed_then_retried");
            cb_before = S.cbstore;
        }
        ri = register_init(&S.tbl);
        c.ev(EV_API, 100, (uint64_t)ri.code, ri.pos.address);
        c.execs++;
        if (P == "C04") c.ops_done++;
        std::vector<InitVerdict> want = ref_init(S.spec);
        bool want_ok = want[0].rule == I_OK;
        if (P == "C04") {
            check_init(S, ri, want, cb_before, "init");
            int defect = (int)plan.geti("defect", -1);
            static const char *DN[] = {"probe.defect_no_areas", "probe.defect_areas_swapped", "probe.defect_area_overlap", "probe.defect_regs_swapped", "probe.defect_reg_overlap",
                                       "probe.defect_reg_straddles_area_end", "probe.defect_reg_in_hole", "probe.defect_bad_default", "probe.defect_bad_default"};
            if (defect >= 0 && defect < 9 && ri.code != REG_INIT_SUCCESS) counters().val[(size_t)counters().id(DN[defect])]++;
        }
        if (!c.viol.empty()) return;
        if ((ri.code == REG_INIT_SUCCESS) != want_ok) return;   // other families need an initialised table; C04 judges this
        S.inited = ri.code == REG_INIT_SUCCESS;
        if (S.inited) S.sync_model_from_actual();
        if (S.spec.be && S.inited) COUNT("probe.big_endian_table");
        if (!S.inited && P != "C04") return;
        if (!S.inited) { probe_uninitialised(S); return; }
        const Json &ops = plan.get("ops");
        for (size_t oi = 0; oi < ops.size(); ++oi) {
            run_op(S, ops.at(oi), oi);
            if (!c.viol.empty() || !S.inited) return;
        }
    }

    static int init_rule_of(RegisterInitCode code) {
        switch (code) {
        case REG_INIT_SUCCESS: return I_OK; case REG_INIT_NO_AREAS: return I_NO_AREAS; case REG_INIT_AREA_INVALID_ORDER: return I_AREA_ORDER;
        case REG_INIT_AREA_ADDRESS_OVERLAP: return I_AREA_OVERLAP; case REG_INIT_ENTRY_INVALID_ORDER: return I_ENTRY_ORDER; case REG_INIT_ENTRY_ADDRESS_OVERLAP: return I_ENTRY_OVERLAP;
        case REG_INIT_ENTRY_IN_MEMORY_HOLE: return I_ENTRY_HOLE; case REG_INIT_ENTRY_INVALID_DEFAULT: return I_ENTRY_DEFAULT; default: return -1;
        }
    }
    void check_init(Sim &S, RegisterInit ri, const std::vector<InitVerdict> &want, const std::vector<std::vector<uint16_t>> &cb_before, const char *site) {
        Ctx &c = S.c;
        int got = init_rule_of(ri.code);
        uint32_t idx = got == I_OK ? 0 : (got == I_NO_AREAS || got == I_AREA_ORDER || got == I_AREA_OVERLAP ? ri.pos.area : ri.pos.entry);
        bool ok = false;
        for (auto &w : want) if (w.rule == got && (got == I_OK || w.index == idx)) ok = true;
        static const char *RN[] = {"accepted", "no-areas", "area-order", "area-overlap", "entry-order", "entry-overlap", "entry-in-hole", "entry-invalid-default"};
        if (!ok) {
            c.fail(std::string("init.verdict.") + site, "register_init reported %s at index %u; the description %s%s at index %u", got >= 0 ? RN[got] : "?", idx,
                   want[0].rule == I_OK ? "is well-formed" : "first violates ", want[0].rule == I_OK ? "" : RN[want[0].rule], want[0].index);
            return;
        }
        if (got != I_OK) {
            return;
        }
        COUNT("probe.wellformed_accepted");
        // post-init state
        const TableSpec &t = S.spec;
        for (size_t ai = 0; ai < t.areas.size(); ++ai) {
            std::vector<char> isreg(t.areas[ai].size, 0);
            size_t first = 0, count = 0; bool any = false;
            for (size_t r = 0; r < t.regs.size(); ++r) {
                if (t.area_of_reg(t.regs[r]) != (int)ai) continue;
                if (!any) { first = r; any = true; }
                ++count;
                for (unsigned k = 0; k < wsize(t.regs[r].type); ++k) isreg[t.regs[r].addr - t.areas[ai].base + k] = 1;
                if (t.loads_defaults(ai)) {
                    uint16_t w[4]; encode(t.regs[r].type, t.regs[r].def, t.be, w);
                    for (unsigned k = 0; k < wsize(t.regs[r].type); ++k)
                        if (S.actual(ai)[t.regs[r].addr - t.areas[ai].base + k] != w[k]) { c.fail(std::string("init.default.") + site, "register %zu does not hold its default after initialisation", r); return; }
                    RegisterValue v; RegisterAccess a = register_get(&S.tbl, (RegisterHandle)r, &v);
                    if (a.code != REG_ACCESS_SUCCESS || (int)v.type != t.regs[r].type || bits_of(v) != (t.regs[r].def & tmask(t.regs[r].type)))
                        { c.fail(std::string("init.default.") + site, "register %zu does not read back its default (%s)", r, code_name(a.code)); return; }
                }
            }
            for (size_t w = 0; w < t.areas[ai].size; ++w) {
                bool loaded = isreg[w] && t.loads_defaults(ai);
                if (loaded) continue;
                uint16_t have = S.actual(ai)[w];
                if (t.areas[ai].mem) { if (have != 0) { c.fail(std::string("init.zero.") + site, "word %zu of memory area %zu is 0x%04x after initialisation, expected 0", w, ai, have); return; } }
                else if (have != cb_before[ai][w]) { c.fail(std::string("init.survive.") + site, "word %zu of callback area %zu changed during initialisation although no default is loaded there", w, ai); return; }
            }
            const RegisterArea &A = S.areas[ai];
            if (any) { if (A.entry.first != first || A.entry.count != count || A.entry.last != first + count - 1) { c.fail(std::string("init.arearun.") + site, "area %zu records registers [%u..%u] count %u, expected [%zu..%zu] count %zu", ai, A.entry.first, A.entry.last, A.entry.count, first, first + count - 1, count); return; } }
            else if (A.entry.count != 0) { c.fail(std::string("init.arearun.") + site, "empty area %zu records %u registers", ai, A.entry.count); return; }
            else if (ai > 0 && ai + 1 < t.areas.size()) COUNT("probe.empty_area_between_populated");
        }
    }
    void probe_uninitialised(Sim &S) {
        Ctx &c = S.c;
        COUNT("probe.ops_report_uninitialised");
        RegisterValue v = mkval(T_U16, 1), o;
        uint16_t buf[2] = {0, 0};
        struct { const char *n; RegisterAccess a; } r[] = {
            {"set", register_set(&S.tbl, 0, v)}, {"set_unsafe", register_set_unsafe(&S.tbl, 0, v)}, {"get", register_get(&S.tbl, 0, &o)},
            {"bit_set", register_bit_set(&S.tbl, 0, v)}, {"bit_clear", register_bit_clear(&S.tbl, 0, v)}, {"default", register_default(&S.tbl, 0, &o)},
            {"block_read", register_block_read(&S.tbl, 0, 1, buf)}, {"block_write", register_block_write(&S.tbl, 0, 1, buf)},
            {"foreach_in", register_foreach_in(&S.tbl, 0, 4, iter_cb, nullptr)}, {"sanitise", register_sanitise(&S.tbl)},
            {"block_read_of_length_0", register_block_read(&S.tbl, 0, 0, buf)}, {"block_write_of_length_0", register_block_write(&S.tbl, 0, 0, buf)}};
        for (auto &x : r) { c.execs++; c.mix((uint64_t)x.a.code); if (x.a.code != REG_ACCESS_UNINITIALISED) { c.fail(std::string("uninit.") + x.n, "%s on a table whose initialisation failed returned %s", x.n, code_name(x.a.code)); return; } }
    }

    // iteration callback with script
    struct IterCtl { std::vector<int64_t> ret; std::vector<uint32_t> visits; Ctx *c; };
    static int iter_cb(RegisterTable *, RegisterHandle h, void *arg) {
        IterCtl *ic = (IterCtl *)arg;
        if (!ic) return 0;
        ic->c->ev(EV_ITER_CB, h, ic->visits.size(), 0);
        size_t k = ic->visits.size();
        ic->visits.push_back(h);
        return k < ic->ret.size() ? (int)ic->ret[k] : 0;
    }

    void run_op(Sim &S, const Json &o, size_t oi) {
        Ctx &c = S.c;
        const std::string &P = c.prop;
        const std::string op = o.gets("op");
        const TableSpec &t = S.spec;
        const size_t nr = t.regs.size();
        auto F = [&](const std::string &rule, const char *fmt, ...) __attribute__((format(printf, 3, 4))) {
            char b[600]; va_list ap; va_start(ap, fmt); vsnprintf(b, sizeof b, fmt, ap); va_end(ap);
            c.fail(op + "." + rule, "op#%zu %s: %s", oi, op.c_str(), b);
        };
        auto unchanged = [&](const char *why) { size_t ai, wi; if (!S.storage_matches_model(&ai, &wi)) { F("storage", "%s: word %zu of area %zu is 0x%04x, expected 0x%04x", why, wi, ai, S.actual(ai)[wi], S.M[ai][wi]); return false; } return true; };
        S.cb_writes_op = 0; S.cb_oob = false;
        S.seam_calls_op = 0; S.intruded = false; S.intrude_at = -1;
        if (o.has("intrude")) { const Json &ij = o.get("intrude"); S.intrude_at = ij.ati(0, 0); if (S.intrude_at < 0 || S.intrude_at > 64) S.intrude_at = 0; S.intrude_arg = ij.ati(1, 0) & 0xfffff; }

        if (op == "corrupt") {
            int64_t addr = o.geti("addr"); const Json &w = o.get("w");
            for (size_t k = 0; k < w.size(); ++k) { uint32_t a = (uint32_t)(addr + (int64_t)k); int ai = t.area_of_addr(a); if (ai < 0) continue; S.actual((size_t)ai)[a - t.areas[(size_t)ai].base] = (uint16_t)w.ati(k); S.M[(size_t)ai][a - t.areas[(size_t)ai].base] = (uint16_t)w.ati(k); }
            c.ev(EV_NOTE, 7, (uint64_t)addr, w.size()); c.faults_fired++; COUNT("fault.out_of_band_storage_corruption");
            return;
        }
        if (op == "set" || op == "set_unsafe") {
            int64_t h = o.geti("h"); int type = (int)(o.geti("t") & 7); uint64_t v = hexu64(o.gets("v", "0")) & tmask(type);
            bool unsafe = op == "set_unsafe";
            bool valid_h = h >= 0 && (size_t)h < nr;
            if (unsafe && valid_h) type = t.regs[(size_t)h].type, v &= tmask(type);   // only correctly typed values for the unchecked variant
            if (unsafe && !valid_h && h == (int64_t)nr && P != "C01") return;
            std::vector<char> ok_before(nr, 0);
            if (P == "C05") for (size_t r = 0; r < nr; ++r) ok_before[r] = S.actual_reg_ok(r);
            RegisterAccess a = unsafe ? register_set_unsafe(&S.tbl, (RegisterHandle)h, mkval(type, v)) : register_set(&S.tbl, (RegisterHandle)h, mkval(type, v));
            c.ev(EV_API, unsafe ? 2 : 1, (uint64_t)a.code, v); c.ops_done++; c.execs++;
            if (S.cb_oob) F("areabounds", "callback area accessed outside its storage");
            // model
            enum { ACCEPT, NOENTRY, REFUSE } m;
            bool refuse_float = false, refuse_ro = false, no_write = false;
            if (!valid_h) m = NOENTRY;
            else {
                const RegSpec &g = t.regs[(size_t)h];
                int ai = t.area_of_reg(g);
                no_write = !t.areas[(size_t)ai].has_write;
                if (!unsafe && type != g.type) { m = REFUSE; COUNT("probe.type_mismatch_refused"); }
                else if (!unsafe && !satisfies(g, v)) { m = REFUSE; if (g.ck == CK_FAIL) COUNT("probe.always_fail_refused"); else COUNT("probe.constraint_refused"); }
                else if (!float_ok(type, v)) { m = REFUSE; refuse_float = true; }
                else if (!t.areas[(size_t)ai].has_write) { m = REFUSE; refuse_ro = true; }
                else m = ACCEPT;
                if (is_float(type) && type == g.type) {
                    if (!float_ok(type, v)) { uint64_t e = type == T_F32 ? (v >> 23) & 0xff : (v >> 52) & 0x7ff; uint64_t mant = type == T_F32 ? v & 0x7fffff : v & 0xfffffffffffffull; if (e == 0) COUNT("probe.float_subnormal"); else if (mant) COUNT("probe.float_nan"); else COUNT("probe.float_inf"); }
                    else if (v == (type == T_F32 ? 0x80000000ull : 0x8000000000000000ull)) COUNT("probe.float_negative_zero");
                }
            }
            if (h == (int64_t)nr) COUNT("probe.handle_eq_entries"); else if (!valid_h) COUNT("probe.handle_beyond");
            if (P == "C01") {
                if (m == NOENTRY) { if (a.code != REG_ACCESS_NOENTRY) F("nosuchentry", "handle %lld is not a register of the table (%zu entries): returned %s", (long long)h, nr, code_name(a.code)); unchanged("bad handle"); if (S.cb_writes_op) F("storage", "a write reached a callback area for a bad handle"); return; }
                if (m == REFUSE) {
                    bool codeok = a.code == REG_ACCESS_RANGE || (refuse_float && a.code == REG_ACCESS_INVALID) || ((refuse_ro || no_write) && a.code == REG_ACCESS_READONLY) || (a.code == REG_ACCESS_INVALID && !float_ok(type, v));
                    if (a.code == REG_ACCESS_SUCCESS) F("refuse", "value 0x%llx (type %d) must be refused for register %lld (type %d, constraint %d) but was accepted", (unsigned long long)v, type, (long long)h, t.regs[(size_t)h].type, t.regs[(size_t)h].ck);
                    else if (!codeok) F("refusecode", "refusal reported as %s", code_name(a.code));
                    unchanged("refused set"); if (S.cb_writes_op) F("storage", "a write reached a callback area although the set was refused");
                    return;
                }
                if (a.code != REG_ACCESS_SUCCESS) { F("accept", "value 0x%llx of the register's type satisfying its constraint was refused with %s", (unsigned long long)v, code_name(a.code)); return; }
                S.reg_store((size_t)h, v);
                if (!unchanged("accepted set: backing words must hold the value in table byte order, nothing else may change")) return;
                RegisterValue got; RegisterAccess ga = register_get(&S.tbl, (RegisterHandle)h, &got); c.execs++;
                if (ga.code != REG_ACCESS_SUCCESS || (int)got.type != type || bits_of(got) != v) F("roundtrip", "get after set returned %s / 0x%llx, set 0x%llx", code_name(ga.code), (unsigned long long)bits_of(got), (unsigned long long)v);
                COUNT("probe.set_accepted");
                if (unsafe && !satisfies(t.regs[(size_t)h], v)) COUNT("probe.unsafe_bypasses_constraint");
                if (!t.areas[(size_t)t.area_of_reg(t.regs[(size_t)h])].mem) COUNT("probe.callback_area_set");
                return;
            }
            // C05: invariant + refused-unchanged
            if (a.code != REG_ACCESS_SUCCESS) { if (unchanged("refused set")) COUNT("probe.refused_op_left_storage_unchanged"); }
            c05_invariant(S, ok_before, F);
            S.sync_model_from_actual();
            return;
        }
        if (op == "get" || op == "default") {
            int64_t h = o.geti("h"); bool valid_h = h >= 0 && (size_t)h < nr;
            RegisterValue got; memset(&got, 0, sizeof got);
            RegisterAccess a = op == "get" ? register_get(&S.tbl, (RegisterHandle)h, &got) : register_default(&S.tbl, (RegisterHandle)h, &got);
            c.ev(EV_API, 3, (uint64_t)a.code, valid_h ? bits_of(got) : 0); c.ops_done++; c.execs++;
            if (h == (int64_t)nr) COUNT("probe.handle_eq_entries"); else if (!valid_h) COUNT("probe.handle_beyond");
            if (!valid_h) { if (a.code != REG_ACCESS_NOENTRY) F("nosuchentry", "handle %lld of %zu: returned %s", (long long)h, nr, code_name(a.code)); return; }
            const RegSpec &g = t.regs[(size_t)h];
            if (op == "default") { if (a.code != REG_ACCESS_SUCCESS || (int)got.type != g.type || bits_of(got) != (g.def & tmask(g.type))) F("value", "default of register %lld wrong", (long long)h); return; }
            if (!S.reg_decodes((size_t)h)) { COUNT("probe.get_undecodable_storage"); if (a.code != REG_ACCESS_INVALID) F("undecodable", "storage holds a non-finite float, get returned %s", code_name(a.code)); return; }
            if (a.code != REG_ACCESS_SUCCESS || (int)got.type != g.type || bits_of(got) != S.reg_bits((size_t)h)) F("value", "get returned %s / 0x%llx, storage holds 0x%llx", code_name(a.code), (unsigned long long)bits_of(got), (unsigned long long)S.reg_bits((size_t)h));
            unchanged("get");
            return;
        }
        if (op == "bit_set" || op == "bit_clear") {
            int64_t h = o.geti("h"); if (!(h >= 0 && (size_t)h < nr)) return;
            int type = (int)(o.geti("t") & 7); uint64_t v = hexu64(o.gets("v", "0")) & tmask(type);
            const RegSpec &g = t.regs[(size_t)h];
            std::vector<char> ok_before(nr, 0);
            for (size_t r = 0; r < nr; ++r) ok_before[r] = S.actual_reg_ok(r);
            bool decodes = S.reg_decodes((size_t)h);
            uint64_t cur = S.reg_bits((size_t)h);
            RegisterAccess a = op == "bit_set" ? register_bit_set(&S.tbl, (RegisterHandle)h, mkval(type, v)) : register_bit_clear(&S.tbl, (RegisterHandle)h, mkval(type, v));
            c.ev(EV_API, 4, (uint64_t)a.code, v); c.ops_done++; c.execs++;
            bool must_refuse = type != g.type || !is_unsigned(g.type);
            if (must_refuse && decodes) {
                if (a.code == REG_ACCESS_SUCCESS) F("refuse", "bit operation with operand type %d on register of type %d was accepted", type, g.type);
                if (unchanged("refused bit operation")) COUNT("probe.bit_op_refused_signed_or_float");
            } else if (a.code == REG_ACCESS_SUCCESS) {
                uint64_t want = op == "bit_set" ? (cur | v) : (cur & ~v);
                S.reg_store((size_t)h, want & tmask(g.type));
                if (unchanged("bit operation must change exactly the requested bits")) COUNT(op == "bit_set" ? "probe.bit_set_exact" : "probe.bit_clear_exact");
            } else { if (unchanged("refused bit operation")) COUNT("probe.refused_op_left_storage_unchanged"); }
            c05_invariant(S, ok_before, F);
            S.sync_model_from_actual();
            return;
        }
        if (op == "bw") { op_block_write(S, o, F); return; }
        if (op == "br") { op_block_read(S, o, F); return; }
        if (op == "foreach") { op_foreach(S, o, F); return; }
        if (op == "touchcheck") {
            for (size_t r = 0; r < nr; ++r) if ((bool)register_was_touched(&S.tbl, (RegisterHandle)r) != (bool)S.touched[r]) { F("touched", "touched mark of register %zu is %d, model %d", r, (int)register_was_touched(&S.tbl, (RegisterHandle)r), (int)S.touched[r]); return; }
            return;
        }
        if (op == "sanitise") { op_sanitise(S, F); return; }
        if (op == "sanitise_any") {
            // not judged (the property only speaks about sanitise on tables it can repair): run it, possibly with an I/O error
            // injected behind the area seam, and carry on from whatever state it leaves - later operations are judged as usual
            // One thing is judged even then (C05, tables the property speaks about): whatever an I/O error does to the call, sanitise only
            // ever resets registers whose content does not decode or violates their constraint - "all others keep their value".
            const TableSpec &t = S.spec; const size_t nr = t.regs.size();
            bool repairable = P == "C05";
            for (auto &g : t.regs) if (g.ck == CK_FAIL || !default_ok(g)) repairable = false;
            for (auto &ar : t.areas) if (!ar.has_write) repairable = false;
            std::vector<char> valid(nr, 0);
            if (repairable) for (size_t r = 0; r < nr; ++r) valid[r] = S.reg_ok(r);
            S.cb_fail_in = o.geti("cbfail", -1);
            RegisterAccess a = register_sanitise(&S.tbl);
            const bool fired = o.geti("cbfail", -1) >= 0 && S.cb_fail_in < 0;
            S.cb_fail_in = -1;
            c.ev(EV_API, 9, (uint64_t)a.code, a.address); c.execs++;
            if (a.code != REG_ACCESS_SUCCESS) COUNT("probe.sanitise_left_through_error_path");
            if (repairable) {
                for (size_t r = 0; r < nr; ++r) {
                    if (!valid[r]) continue;
                    const RegSpec &g = t.regs[r]; int ai = t.area_of_reg(g); if (ai < 0) continue;
                    for (unsigned k = 0; k < wsize(g.type); ++k) {
                        size_t wi = g.addr + k - t.areas[(size_t)ai].base;
                        if (S.actual((size_t)ai)[wi] != S.M[(size_t)ai][wi]) { F("keepsvalid", "register %zu held a valid value, sanitise (%s, %s) changed its word %u from 0x%04x to 0x%04x", r, fired ? "with an injected callback I/O error" : "no fault", code_name(a.code), k, S.M[(size_t)ai][wi], S.actual((size_t)ai)[wi]); return; }
                    }
                }
                if (fired) COUNT("probe.sanitise_with_io_error_kept_valid_registers");
            }
            S.sync_model_from_actual();
            return;
        }
        if (op == "reedit" && P != "C01") {
            // a well-formed edit of an initialised table (registers removed, e.g. an area loses all of them), then register_init again
            Rng r2((uint64_t)o.geti("salt") * 0x9e3779b97f4a7c15ULL + 5);
            TableSpec edited = S.spec;
            if (edited.regs.empty()) return;
            if (r2.chance(1, 2)) { int ai = edited.area_of_reg(edited.regs[r2.below(edited.regs.size())]); std::vector<RegSpec> keep; for (auto &g : edited.regs) if (edited.area_of_reg(g) != ai) keep.push_back(g); edited.regs = keep; }
            else edited.regs.erase(edited.regs.begin() + (long)r2.below(edited.regs.size()));
            // the library's arrays are edited in place: same table object, same area array (its recorded register runs stay as they were)
            std::vector<RegisterArea> old_areas(S.areas, S.areas + S.spec.areas.size());
            S.spec = edited; S.macro = false;
            S.build(false, true);
            for (size_t i = 0; i < S.spec.areas.size() && i < old_areas.size(); ++i) S.areas[i].entry = old_areas[i].entry;
            std::vector<std::vector<uint16_t>> cb_before = S.cbstore;
            RegisterInit ri = register_init(&S.tbl);
            c.ev(EV_API, 103, (uint64_t)ri.code, ri.pos.address); c.execs++;
            COUNT("probe.reinit_after_registers_removed");
            if (P == "C04") { c.ops_done++; check_init(S, ri, ref_init(S.spec), cb_before, "reedit"); if (!c.viol.empty()) return; }
            if (ri.code != REG_INIT_SUCCESS) { S.inited = false; return; }
            S.sync_model_from_actual();
            return;
        }
        if (op == "move") {
            // the live table is re-configured the way the library's own tests do it: one register's address is assigned in place (it stays
            // inside its area and clear of its neighbours; whatever the library keeps in the entry object stays there), then register_init again
            if (nr == 0 || !S.inited) return;
            const uint64_t salt = (uint64_t)o.geti("salt");
            const size_t ri = (size_t)(salt % nr);
            const RegSpec g = S.spec.regs[ri]; const int ai = S.spec.area_of_reg(g);
            if (ai < 0) return;
            const AreaSpec &A = S.spec.areas[(size_t)ai]; const uint64_t w = wsize(g.type);
            uint64_t lo = A.base, hi = (uint64_t)A.base + A.size;   // [lo, hi): where the register may lie
            if (ri > 0) lo = std::max<uint64_t>(lo, (uint64_t)S.spec.regs[ri - 1].addr + wsize(S.spec.regs[ri - 1].type));
            if (ri + 1 < nr) hi = std::min<uint64_t>(hi, S.spec.regs[ri + 1].addr);
            if (hi < lo + w || hi - lo - w == 0) return;             // no other place for it
            const uint64_t places = hi - lo - w;                     // positions other than the current one
            uint64_t a = lo + (salt >> 8) % places; if (a >= g.addr) ++a;
            S.spec.regs[ri].addr = (uint32_t)a;
            S.entries[ri].address = S.up((uint32_t)a);
            std::vector<std::vector<uint16_t>> cb_before = S.cbstore;
            RegisterInit rin = register_init(&S.tbl);
            c.ev(EV_API, 104, (uint64_t)rin.code, a); c.execs++;
            COUNT("probe.reinit_after_register_moved_within_its_area");
            if (P == "C04") { c.ops_done++; check_init(S, rin, ref_init(S.spec), cb_before, "move"); if (!c.viol.empty()) return; }
            if (rin.code != REG_INIT_SUCCESS) { S.inited = false; return; }
            S.sync_model_from_actual();
            return;
        }
        if (op == "givenup" && P == "C03") {
            // a re-configuration that is given up half-way: the table object already names another area list when it turns out that there is no
            // entry list for it; register_init refuses that, the application puts the old pointers back and goes on with the old map. The table
            // is then either what it was, or says "uninitialised" to everything - not initialised with pieces of the other description
            if (!S.inited) return;
            static RegisterAtom omem[4]; static RegisterArea other[4];
            memset(other, 0, sizeof other);
            const size_t ocount = 1 + (size_t)((uint64_t)o.geti("salt") % 3);
            for (size_t i = 0; i < ocount; ++i) { other[i].read = reg_mem_read; other[i].write = reg_mem_write; other[i].flags = REG_AF_READABLE | REG_AF_WRITEABLE; other[i].base = (RegisterAddress)(0x1000 + 8 * i); other[i].size = 4; other[i].mem = omem; }
            RegisterArea *olda = S.tbl.area; RegisterEntry *olde = S.tbl.entry;
            S.tbl.area = other; S.tbl.entry = nullptr;
            RegisterInit rin = register_init(&S.tbl);
            S.tbl.area = olda; S.tbl.entry = olde;
            c.ev(EV_API, 105, (uint64_t)rin.code, ocount); c.ops_done++; c.execs++;
            COUNT("probe.reinit_given_up_for_want_of_an_entry_list");
            if (rin.code == REG_INIT_SUCCESS) { F("givenup", "register_init accepted a table without an entry list"); return; }
            uint16_t probe[1] = {0}; RegisterAccess pa = register_block_read(&S.tbl, S.up(S.spec.areas[0].base), 1, (RegisterAtom *)probe);
            if (pa.code == REG_ACCESS_UNINITIALISED) { probe_uninitialised(S); S.inited = false; return; }
            return;   // still initialised: the following operations hold it to the old description
        }
        if (op == "redefect" && P == "C04") {
            // the description of an initialised table is edited and register_init runs again on the same object
            Rng r2((uint64_t)o.geti("salt") * 2654435761ULL + 17);
            int d = (int)(o.geti("d") % 9); if (d < 0) d = 0;
            TableSpec edited = S.spec; apply_defect(edited, d, r2);
            S.spec = edited; S.macro = false;
            S.build(true, true);
            std::vector<std::vector<uint16_t>> cb_before = S.cbstore;
            RegisterInit ri = register_init(&S.tbl);
            c.ev(EV_API, 102, (uint64_t)ri.code, ri.pos.address); c.ops_done++; c.execs++;
            std::vector<InitVerdict> want = ref_init(S.spec);
            check_init(S, ri, want, cb_before, "reinit");
            if (!c.viol.empty()) return;
            if (ri.code != REG_INIT_SUCCESS) { COUNT("probe.reinit_of_initialised_table_rejected"); probe_uninitialised(S); S.inited = false; return; }
            S.sync_model_from_actual();
            return;
        }
        if (op == "restart" && P == "C04") {
            std::vector<std::vector<uint16_t>> cb_before = S.cbstore;
            bool any_cb = false; for (auto &a : t.areas) if (!a.mem) any_cb = true;
            RegisterInit ri = register_init(&S.tbl);
            c.ev(EV_API, 101, (uint64_t)ri.code, ri.pos.address); c.ops_done++; c.execs++;
            check_init(S, ri, ref_init(S.spec), cb_before, "restart");
            if (any_cb) COUNT("probe.restart_over_surviving_callback_storage");
            if (c.viol.empty()) S.sync_model_from_actual();
            return;
        }
        if (op == "poststate" || op == "probe_ops") {
            // a few typed reads on the initialised table: every register readable unless its storage is undecodable
            for (size_t r = 0; r < nr; ++r) { RegisterValue v; RegisterAccess a = register_get(&S.tbl, (RegisterHandle)r, &v); c.execs++; if (a.code != REG_ACCESS_SUCCESS && S.reg_decodes(r)) { F("get", "register %zu unreadable after initialisation: %s", r, code_name(a.code)); return; } }
            return;
        }
    }

    template <class FF> void c05_invariant(Sim &S, const std::vector<char> &ok_before, FF &F) {
        if (S.c.prop != "C05") return;
        COUNT("probe.invariant_checked_ops");
        for (size_t r = 0; r < S.spec.regs.size(); ++r) {
            const RegSpec &g = S.spec.regs[r];
            if (g.ck == CK_NONE) continue;
            bool now = S.actual_reg_ok(r);
            if (g.ck == CK_FAIL) continue;   // handled by the unchanged rule below
            if (ok_before[r] && !now) { F("invariant", "register %zu (type %d, constraint %d) satisfied its constraint before this checked operation and violates it now", r, g.type, g.ck); return; }
        }
        // always-fail registers never change through checked operations
        for (size_t r = 0; r < S.spec.regs.size(); ++r) {
            const RegSpec &g = S.spec.regs[r];
            if (g.ck != CK_FAIL) continue;
            for (unsigned k = 0; k < wsize(g.type); ++k) if (S.aword(g.addr + k) != S.mword(g.addr + k)) { F("alwaysfail", "always-fail register %zu changed through a checked operation", r); return; }
        }
    }

    template <class FF> void op_block_write(Sim &S, const Json &o, FF &F) {
        Ctx &c = S.c; const TableSpec &t = S.spec; const size_t nr = t.regs.size();
        int64_t addr64 = o.geti("addr"); if (addr64 < 0) addr64 = 0; if (addr64 > 0x80000) addr64 = 0x80000;
        uint32_t addr = (uint32_t)addr64;
        const Json &wj = o.get("w");
        size_t n = wj.size(); if (n > 512) n = 512;
        // a block too long to spell out: "wn" words that keep the current content, except for the (offset, value) pairs in "wset"
        const bool longblock = o.has("wn");
        if (longblock) { int64_t wn = o.geti("wn"); if (wn < 0) wn = 0; if (wn > 0x10080) wn = 0x10080; n = (size_t)wn; if (n >= 65536) COUNT("probe.block_of_64k_words_or_more"); }
        if (!S.clamp_n(addr, n)) return;
        GuardedBlock buf(n * 2 ? n * 2 : 2);
        uint16_t *w = (uint16_t *)buf.p;
        for (size_t k = 0; k < n; ++k) { int64_t x = longblock ? -1 : wj.ati(k, -1); w[k] = x < 0 ? (S.mapped(addr + (uint32_t)k) ? S.mword(addr + (uint32_t)k) : 0) : (uint16_t)x; }
        if (longblock) { const Json &ws = o.get("wset"); for (size_t q = 0; q < ws.size() && q < 64; ++q) { int64_t at = ws.at(q).ati(0, 0), val = ws.at(q).ati(1, 0); if (at >= 0 && (size_t)at < n) w[(size_t)at] = (uint16_t)val; } }
        buf.snap();
        std::vector<char> ok_before(nr, 0);
        for (size_t r = 0; r < nr; ++r) ok_before[r] = S.actual_reg_ok(r);
        // ---- model verdict
        struct Fail { int code; uint32_t addr; };
        std::vector<Fail> applicable;
        bool ro_seen = false, hole_seen = false;
        int first_area = -1, last_area = -1;
        for (size_t k = 0; k < n; ++k) {
            uint32_t a = addr + (uint32_t)k; int ai = t.area_of_addr(a);
            if (ai < 0) { if (!hole_seen) { applicable.push_back({REG_ACCESS_NOENTRY, a}); hole_seen = true; } continue; }
            if (first_area < 0) first_area = ai; last_area = ai;
            if (!t.area_writable((size_t)ai) && !ro_seen) { applicable.push_back({REG_ACCESS_READONLY, a}); ro_seen = true; if (a != addr) COUNT("probe.readonly_not_at_request_start"); }
        }
        bool inv_seen = false, rng_seen = false, interior64 = false;
        std::vector<size_t> overlapped;
        if (!hole_seen) for (size_t r = 0; r < nr && n > 0; ++r) {
            const RegSpec &g = t.regs[r];
            if (g.addr + wsize(g.type) <= addr || g.addr >= addr + n) continue;
            overlapped.push_back(r);
            uint16_t ow[4];
            for (unsigned k = 0; k < wsize(g.type); ++k) { uint32_t a = g.addr + k; ow[k] = (a >= addr && a < addr + n) ? w[a - addr] : S.mword(a); }
            uint64_t bits = decode_bits(g.type, t.be, ow);
            uint32_t fa = std::max(addr, g.addr);
            if (wsize(g.type) == 4 && addr > g.addr && addr + n < g.addr + 4) interior64 = true;
            if (!float_ok(g.type, bits)) { if (!inv_seen) { applicable.push_back({REG_ACCESS_INVALID, fa}); inv_seen = true; } }
            else if (!satisfies(g, bits)) { if (!rng_seen) { applicable.push_back({REG_ACCESS_RANGE, fa}); rng_seen = true; if (!(addr <= g.addr && addr + n >= g.addr + wsize(g.type))) COUNT("probe.partial_overlap_violates_constraint"); } }
        }
        if (interior64) COUNT("probe.write_inside_64bit_register");
        if (first_area >= 0 && last_area != first_area) COUNT("probe.block_spans_two_areas");
        std::vector<char> touched_before(nr);
        for (size_t r = 0; r < nr; ++r) touched_before[r] = register_was_touched(&S.tbl, (RegisterHandle)r);
        if (!S.fits_address_space(addr, n)) return;
        RegisterAccess a = S.down(register_block_write(&S.tbl, S.up(addr), (RegisterOffset)n, w));
        c.ev(EV_API, 5, (uint64_t)a.code, a.address); c.ops_done++; c.execs++;
        if (S.cb_oob) F("areabounds", "callback area accessed outside its storage");
        if (!buf.unchanged_outside(0, 0)) F("constbuf", "the caller's word buffer was modified");
        bool expect_ok = applicable.empty();
        if (n == 0) COUNT("probe.zero_length_write");
        if (S.c.prop == "C02") {
            if (expect_ok) {
                if (a.code != REG_ACCESS_SUCCESS) { F("accept", "block write of %zu words at %u is valid (mapped, writable, every overlapped register decodes and satisfies its constraint) but returned %s at %u", n, addr, code_name(a.code), a.address); return; }
                for (size_t k = 0; k < n; ++k) S.mword(addr + (uint32_t)k) = w[k];
                size_t ai, wi; if (!S.storage_matches_model(&ai, &wi)) { F("exact", "after a successful block write word %zu of area %zu is 0x%04x, expected 0x%04x (exactly the n words must change)", wi, ai, S.actual(ai)[wi], S.M[ai][wi]); return; }
                for (size_t r = 0; r < nr; ++r) { bool ov = std::find(overlapped.begin(), overlapped.end(), r) != overlapped.end(); bool want = ov || touched_before[r]; if ((bool)register_was_touched(&S.tbl, (RegisterHandle)r) != want) { F("touched", "register %zu touched mark is %d after the write, expected %d", r, (int)register_was_touched(&S.tbl, (RegisterHandle)r), (int)want); return; } }
                if (n) COUNT("probe.block_write_accepted");
                S.sync_model_from_actual();
                return;
            }
            if (a.code == REG_ACCESS_SUCCESS) { F("reject", "block write of %zu words at %u must fail (%s at %u) but succeeded", n, addr, code_name(applicable[0].code), applicable[0].addr); return; }
            bool match = false; for (auto &f : applicable) if (f.code == (int)a.code && f.addr == a.address) match = true;
            if (!match) {
                std::string ap; for (auto &f : applicable) { char b[64]; snprintf(b, sizeof b, "%s@%u ", code_name(f.code), f.addr); ap += b; }
                F("failclass", "failed with %s at %u; applicable (class @ first address inside the request): %s", code_name(a.code), a.address, ap.c_str());
            }
            size_t ai, wi; if (!S.storage_matches_model(&ai, &wi)) F("atomic", "failed block write changed word %zu of area %zu", wi, ai);
            for (size_t r = 0; r < nr; ++r) if ((bool)register_was_touched(&S.tbl, (RegisterHandle)r) != (bool)touched_before[r]) { F("touched", "failed block write changed the touched mark of register %zu", r); break; }
            if (ro_seen) COUNT("probe.block_into_readonly"); if (hole_seen) COUNT("probe.block_into_hole"); if (inv_seen) COUNT("probe.block_decode_failure");
            return;
        }
        // C05: invariant + refused-unchanged
        if (a.code != REG_ACCESS_SUCCESS) { size_t ai, wi; if (!S.storage_matches_model(&ai, &wi)) F("storage", "refused block write changed word %zu of area %zu", wi, ai); else { COUNT("probe.refused_op_left_storage_unchanged"); if (a.code == REG_ACCESS_RANGE) COUNT("probe.block_write_refused_by_constraint"); } }
        else for (size_t k = 0; k < n; ++k) if (S.mapped(addr + (uint32_t)k)) S.mword(addr + (uint32_t)k) = w[k];
        c05_invariant(S, ok_before, F);
        S.sync_model_from_actual();
    }

    template <class FF> void op_block_read(Sim &S, const Json &o, FF &F) {
        Ctx &c = S.c; const TableSpec &t = S.spec;
        int64_t addr64 = o.geti("addr"); if (addr64 < 0) addr64 = 0; if (addr64 > 0x80000) addr64 = 0x80000;
        uint32_t addr = (uint32_t)addr64;
        int64_t n64 = o.geti("n"); if (n64 < 0) n64 = 0; if (n64 > 512) n64 = 512;
        size_t n = (size_t)n64;
        if (!S.clamp_n(addr, n)) return;
        GuardedBlock buf(n * 2 ? n * 2 : 2);
        RegisterAccess a;
        if (o.geti("two") && S.inited) {
            // the same read in the two steps the header offers to callers that check once and read often: on an initialised table it is the same read
            a = S.down(register_block_touches_hole(&S.tbl, S.up(addr), (RegisterOffset)n));
            if (a.code == REG_ACCESS_SUCCESS) a = S.down(register_block_read_unsafe(&S.tbl, S.up(addr), (RegisterOffset)n, (RegisterAtom *)buf.p));
            COUNT("probe.read_in_two_steps");
        } else a = S.down(register_block_read(&S.tbl, S.up(addr), (RegisterOffset)n, (RegisterAtom *)buf.p));
        c.ev(EV_API, 6, (uint64_t)a.code, a.address); c.ops_done++; c.execs++;
        if (S.cb_oob) F("areabounds", "callback area accessed outside its storage");
        int64_t first_unmapped = -1; int fa = -1, la = -1; bool wo_mid = false;
        for (size_t k = 0; k < n; ++k) { uint32_t x = addr + (uint32_t)k; int ai = t.area_of_addr(x); if (ai < 0) { if (first_unmapped < 0) first_unmapped = x; continue; } if (fa < 0) fa = ai; la = ai; if (k == 0 && !t.area_readable((size_t)ai) && x > t.areas[(size_t)ai].base) wo_mid = true; }
        if (n == 0) { COUNT("probe.zero_length_read"); if (a.code != REG_ACCESS_SUCCESS) F("zero", "zero-length read returned %s", code_name(a.code)); if (!buf.unchanged_outside(0, 0)) F("bounds", "zero-length read wrote to the buffer"); return; }
        if (first_unmapped >= 0) {
            COUNT("probe.read_into_hole");
            if (a.code != REG_ACCESS_NOENTRY || a.address != (uint32_t)first_unmapped) F("unmapped", "read of %zu words at %u touches unmapped address %lld; returned %s at %u", n, addr, (long long)first_unmapped, code_name(a.code), a.address);
            return;
        }
        if (a.code != REG_ACCESS_SUCCESS) { F("accept", "all %zu addresses from %u are mapped but the read returned %s at %u", n, addr, code_name(a.code), a.address); return; }
        const uint16_t *w = (const uint16_t *)buf.p;
        for (size_t k = 0; k < n; ++k) {
            uint32_t x = addr + (uint32_t)k; int ai = t.area_of_addr(x);
            uint16_t want = t.area_readable((size_t)ai) ? S.mword(x) : 0;
            if (w[k] != want) { F("words", "word %zu (address %u, area %d %s) read as 0x%04x, expected 0x%04x", k, x, ai, t.area_readable((size_t)ai) ? "readable" : "not readable", w[k], want); return; }
        }
        if (wo_mid) COUNT("probe.read_write_only_area_mid_area");
        if (fa != la) COUNT("probe.read_spans_two_areas");
        size_t ai, wi; if (!S.storage_matches_model(&ai, &wi)) F("readonly", "a block read changed the table");
    }

    template <class FF> void op_foreach(Sim &S, const Json &o, FF &F) {
        Ctx &c = S.c; const TableSpec &t = S.spec; const size_t nr = t.regs.size();
        int64_t addr64 = o.geti("addr"); if (addr64 < 0) addr64 = 0; if (addr64 > 0x80000) addr64 = 0x80000;
        uint32_t addr = (uint32_t)addr64;
        int64_t n64 = o.geti("n"); if (n64 < 0) n64 = 0; if (n64 > 100000) n64 = 100000;
        uint32_t len = (uint32_t)n64;
        if (!S.clamp_n(addr, len)) return;
        IterCtl ic; ic.c = &c;
        const Json &rj = o.get("ret"); for (size_t k = 0; k < rj.size(); ++k) { int64_t v = rj.ati(k); if (v > 1000) v = 1000; if (v < -1000) v = -1000; ic.ret.push_back(v); }
        if (!S.fits_address_space(addr, len)) return;
        if (S.uplen(addr, len) > 0xffffffffull) return;   // a range of 2^32 addresses cannot be asked for
        RegisterAccess a = S.down(register_foreach_in(&S.tbl, S.up(addr), (uint32_t)S.uplen(addr, len), iter_cb, &ic));
        c.ev(EV_API, 7, (uint64_t)a.code, a.address); c.ops_done++; c.execs++;
        // expected visits
        std::vector<uint32_t> want; int want_code = REG_ACCESS_SUCCESS; uint32_t want_addr = 0;
        bool gap_start = len > 0 && nr > 0, mid_start = false;
        for (size_t r = 0; r < nr && len > 0; ++r) {
            const RegSpec &g = t.regs[r];
            if (g.addr <= addr && addr < g.addr + wsize(g.type)) { gap_start = false; if (addr > g.addr) mid_start = true; }
            if ((uint64_t)g.addr + wsize(g.type) <= addr || (uint64_t)g.addr >= (uint64_t)addr + len) continue;
            size_t k = want.size(); want.push_back((uint32_t)r);
            int64_t ret = k < ic.ret.size() ? ic.ret[k] : 0;
            if (ret < 0) { want_code = REG_ACCESS_FAILURE; want_addr = g.addr; break; }
            if (ret > 0) break;
        }
        if (ic.visits != want) {
            std::string hs, ws; for (auto v : ic.visits) hs += std::to_string(v) + " "; for (auto v : want) ws += std::to_string(v) + " ";
            F("visits", "iteration over [%u,+%u) visited registers { %s}, the registers overlapping the range are { %s}", addr, len, hs.c_str(), ws.c_str()); return;
        }
        if ((int)a.code != want_code || (want_code == REG_ACCESS_FAILURE && a.address != want_addr)) F("result", "iteration returned %s at %u, expected %s at %u", code_name(a.code), a.address, code_name(want_code), want_addr);
        if (!want.empty() && gap_start) COUNT("probe.iteration_starts_in_gap");
        if (!want.empty() && mid_start) COUNT("probe.iteration_starts_mid_register");
        if (want.size() > 1) COUNT("probe.iteration_visits_several");
        if (want_code == REG_ACCESS_FAILURE) COUNT("probe.iteration_negative_callback"); else if (!want.empty() && want.size() <= ic.ret.size() && ic.ret[want.size() - 1] > 0) COUNT("probe.iteration_stopped_by_callback");
    }

    template <class FF> void op_sanitise(Sim &S, FF &F) {
        Ctx &c = S.c; const TableSpec &t = S.spec; const size_t nr = t.regs.size();
        // the property speaks about tables without always-fail registers, with valid defaults, all areas writable by callback
        bool judged = true;
        for (auto &g : t.regs) if (g.ck == CK_FAIL || !default_ok(g)) judged = false;
        for (auto &a : t.areas) if (!a.has_write) judged = false;
        if (!judged) {   // outside what the property promises: run it unjudged and carry on from the state it leaves
            RegisterAccess ua = register_sanitise(&S.tbl); c.ev(EV_API, 9, (uint64_t)ua.code, ua.address); c.execs++;
            if (ua.code != REG_ACCESS_SUCCESS) COUNT("probe.sanitise_left_through_error_path");
            S.sync_model_from_actual(); return;
        }
        std::vector<char> need(nr, 0); size_t nreset = 0;
        for (size_t r = 0; r < nr; ++r) { need[r] = !S.reg_ok(r); nreset += need[r]; }
        RegisterAccess a = register_sanitise(&S.tbl);
        c.ev(EV_API, 8, (uint64_t)a.code, a.address); c.ops_done++; c.execs++;
        if (a.code != REG_ACCESS_SUCCESS) { F("result", "sanitise returned %s at %u", code_name(a.code), a.address); return; }
        for (size_t r = 0; r < nr; ++r) if (need[r]) S.reg_store(r, t.regs[r].def);
        size_t ai, wi;
        if (!S.storage_matches_model(&ai, &wi)) { F("state", "after sanitise word %zu of area %zu is 0x%04x, expected 0x%04x (undecodable/violating registers reset to default, all others unchanged)", wi, ai, S.actual(ai)[wi], S.M[ai][wi]); return; }
        for (size_t r = 0; r < nr; ++r) if (register_was_touched(&S.tbl, (RegisterHandle)r)) { F("touched", "register %zu still marked touched after sanitise", r); return; }
        for (size_t r = 0; r < nr; ++r) if (t.regs[r].ck != CK_NONE && !S.actual_reg_ok(r)) { F("invariant", "register %zu violates its constraint after sanitise", r); return; }
        if (nreset) COUNT("probe.corrupt_then_sanitise");
        if (nreset && nreset < nr) COUNT("probe.sanitise_reset_some_kept_some");
        S.sync_model_from_actual();
    }
};

}  // namespace

extern "C" bool regsim_macro_cb(const RegisterEntry *e, RegisterValue v) { return Sim::cb_validate(e, v); }
extern "C" RegisterAccess regsim_macro_read(const RegisterArea *a, RegisterAtom *d, RegisterOffset o, RegisterOffset n) { return Sim::cb_read(a, d, o, n); }
extern "C" RegisterAccess regsim_macro_write(RegisterArea *a, const RegisterAtom *s, RegisterOffset o, RegisterOffset n) { return Sim::cb_write(a, s, o, n); }

int main(int argc, char **argv) {
    RegHarness h;
    return sim_main(argc, argv, h);
}
