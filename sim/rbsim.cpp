// rbsim - ring buffer under interleaved producer/consumer/admin/observer tasks (property C19)
#include "driver.hpp"
#include "seams.hpp"

#include <deque>
#include <memory>
#include <type_traits>

extern "C" {
#include <ufw/octet-ring.h>
#include <ufw/ring-buffer.h>
#include <ufw/ring-buffer-iter.h>
}

// instantiations of the repository's macros for further element types (the
// macro bodies are the repository's code)
extern "C" {
RING_BUFFER_API(u16ring, uint16_t)
RING_BUFFER_ITER_API(u16ring, uint16_t)
RING_BUFFER(u16ring, uint16_t)
RING_BUFFER_ITER(u16ring, uint16_t)
RING_BUFFER_API(u32ring, uint32_t)
RING_BUFFER_ITER_API(u32ring, uint32_t)
RING_BUFFER(u32ring, uint32_t)
RING_BUFFER_ITER(u32ring, uint32_t)
RING_BUFFER_API(u64ring, uint64_t)
RING_BUFFER_ITER_API(u64ring, uint64_t)
RING_BUFFER(u64ring, uint64_t)
RING_BUFFER_ITER(u64ring, uint64_t)
RING_BUFFER_API(intring, int)
RING_BUFFER_ITER_API(intring, int)
RING_BUFFER(intring, int)
RING_BUFFER_ITER(intring, int)
}

namespace {

// type-erased view of one ring instance
struct Ring {
    virtual ~Ring() {}
    virtual void put(uint64_t v) = 0;
    virtual uint64_t get() = 0;
    virtual size_t size() = 0;
    virtual bool empty() = 0;
    virtual bool full() = 0;
    virtual void clear() = 0;
    virtual void ovr(bool) = 0;
    virtual void iter(rb_iter *, rb_iter_mode) = 0;
    virtual uint64_t inspect(const rb_iter *) = 0;
    virtual size_t head() = 0;
    virtual size_t tail() = 0;
    virtual uint64_t mask() = 0;
    virtual void reinit() = 0;   // the init call again on the live object (same storage, same capacity)
};
#define RING_IMPL(CLS, NAME, TYPE)                                                          \
    struct CLS : Ring {                                                                     \
        NAME r; TYPE *mem; size_t cap;                                                      \
        /* the ring object lies in memory that holds 'dirt' before its init call (a stack frame, a re-used heap block) */ \
        CLS(size_t n, int dirt) : cap(n) { mem = (TYPE *)malloc(sizeof(TYPE) * n); memset((void *)&r, dirt, sizeof r); NAME##_init(&r, mem, n); } \
        void reinit() override { NAME##_init(&r, mem, cap); }                                \
        ~CLS() override { free(mem); }                                                      \
        void put(uint64_t v) override { NAME##_put(&r, (TYPE)v); }                          \
        uint64_t get() override { return (uint64_t)(TYPE)NAME##_get(&r); }                  \
        size_t size() override { return NAME##_size(&r); }                                  \
        bool empty() override { return NAME##_empty(&r); }                                  \
        bool full() override { return NAME##_full(&r); }                                    \
        void clear() override { NAME##_clear(&r); }                                         \
        void ovr(bool s) override { NAME##_override_if_full(&r, s); }                       \
        void iter(rb_iter *it, rb_iter_mode m) override { NAME##_iter(it, &r, m); }         \
        uint64_t inspect(const rb_iter *it) override { return (uint64_t)(TYPE)NAME##_inspect(&r, it); } \
        size_t head() override { return r.head; }                                           \
        size_t tail() override { return r.tail; }                                           \
        uint64_t mask() override { return sizeof(TYPE) >= 8 ? ~0ull : ((1ull << (8 * sizeof(TYPE) - (std::is_signed<TYPE>::value ? 1 : 0))) - 1); }                       \
    };
RING_IMPL(OctetRing, octet_ring, uint8_t)
RING_IMPL(U16Ring, u16ring, uint16_t)
RING_IMPL(U32Ring, u32ring, uint32_t)
RING_IMPL(U64Ring, u64ring, uint64_t)
RING_IMPL(IntRing, intring, int)

struct RbHarness : Harness {
    const char *name() const override { return "rbsim"; }
    std::vector<std::string> props() const override { return {"C19"}; }
    std::vector<std::string> probes(const std::string &) const override {
        return {"override_eviction", "override_eviction_capacity_1", "put_on_full_dropped", "head_wrapped", "tail_wrapped", "get_on_empty", "clear", "iterator_across_wrap", "capacity_of_64k_elements_or_more", "octet_ring_with_more_than_255_slots", "live_ring_initialised_again", "ring_object_in_memory_with_odd_octets"};
    }
    uint64_t runs(const std::string &, const Tier &t) const override { return t.thorough() ? 5000000 : 4000000; }

    Json describe(const std::string &) const override {
        Json d = Json::obj();
        d["rule"] = "plans = {element type, capacity, octet the ring object's memory holds before init, ops[]}; ops belong to four cooperative tasks (producer: put of unique non-zero values; "
                    "consumer: get; admin: clear, override on/off, init again on the live ring; observer: size/empty/full and both iterators run to completion) interleaved by "
                    "the seeded scheduler; a run is non-trivial when at least one put or get executed; distinct = distinct execution fingerprints";
        Json real = Json::arr();
        real.push("src/octet-ring.c (octet_ring)"); real.push("include/ufw/ring-buffer.h macro bodies instantiated for uint16_t/uint32_t/uint64_t/int");
        real.push("include/ufw/ring-buffer-iter.h + src/ring-buffer-iter.c");
        Json stubs = Json::arr(); stubs.push("none (no seam; element storage is an exact-size heap block under ASan)");
        d["real"] = real; d["stubs"] = stubs;
        Json as = Json::arr();
        as.push("weak claim: the ring buffer has no seam, fault or concurrency; the simulator contributes seeded interleavings, a deque model and the FIFO/exactly-once history oracle");
        as.push("the property's explicit-state model checking over capacities 1..4 is not claimed; the evidence reports the (capacity, head, tail, override, size) states reached");
        as.push("put values are non-zero and unique within the element width over any window of 250 puts, so every get is attributable to one put");
        d["assumptions"] = as;
        return d;
    }

    Json gen(const std::string &, Rng &r, const Tier &t, uint64_t) override {
        Json p = Json::obj();
        int64_t cap = r.chance(3, 4) ? r.range(1, 8) : (r.chance(1, 2) ? 64 : 257);
        int64_t type = (int64_t)r.below(5);
        if (cap > 200 && type == 0) type = 1;
        p["type"] = (long long)type; p["cap"] = (long long)cap;
        { static const int DIRT[] = {0, 0, 0xff, 0x01, 0xa5, 0xbe, 0x80, 0x7f}; p["dirt"] = DIRT[r.below(8)]; }
        int nops = (int)r.range(1, t.thorough() ? (r.chance(1, 10) ? 5000 : 200) : 60);
        unsigned wp = 1 + (unsigned)r.below(5), wc = 1 + (unsigned)r.below(5), wa = (unsigned)r.below(2), wo = (unsigned)r.below(3);
        Json ops = Json::arr();
        for (int i = 0; i < nops; ++i) {
            uint64_t k = r.below(wp + wc + wa + wo);
            if (k < wp) ops.push("put");
            else if (k < wp + wc) ops.push("get");
            else if (k < wp + wc + wa) ops.push(r.chance(1, 3) ? "clear" : (r.chance(1, 6) ? "reinit" : (r.chance(1, 2) ? "ovr1" : "ovr0")));
            else ops.push(r.chance(1, 2) ? "obs" : "iter");
        }
        if (r.chance(1, 60)) {   // rings of a few hundred elements (indices beyond what an octet holds), all element types, driven by bulk puts and gets
            static const int64_t CAPS[] = {255, 256, 257, 300, 511, 1000};
            cap = CAPS[r.below(6)]; p["cap"] = (long long)cap; p["type"] = (long long)r.below(5);
            ops = Json::arr();
            auto bulk = [&](const char *op, int64_t k) { Json o = Json::obj(); o["op"] = op; o["k"] = (long long)k; ops.push(o); };
            if (r.chance(1, 3)) ops.push("ovr1");
            int rounds = (int)r.range(2, 6);
            for (int i = 0; i < rounds; ++i) {
                bulk("put", r.chance(1, 3) ? cap : r.range(1, cap + 3)); if (r.chance(1, 2)) ops.push("iter");
                bulk("get", r.range(1, cap)); if (r.chance(1, 2)) ops.push("obs");
                int few = (int)r.below(4); for (int q = 0; q < few; ++q) ops.push(r.chance(1, 2) ? "put" : "get");
            }
            ops.push("iter");
        } else
        if (r.chance(1, t.thorough() ? 600 : 2500)) {   // rarely a ring of 2^16 elements and more, driven by bulk puts and gets (capacities, indices and counts that do not fit 16 bits)
            static const int64_t CAPS[] = {65535, 65536, 65537, 70000};
            cap = CAPS[r.below(4)]; p["cap"] = (long long)cap; if (type == 0 && r.chance(1, 2)) p["type"] = 2;
            ops = Json::arr();
            auto bulk = [&](const char *op, int64_t k) { Json o = Json::obj(); o["op"] = op; o["k"] = (long long)k; ops.push(o); };
            if (r.chance(1, 2)) ops.push("ovr1");
            bulk("put", r.chance(1, 2) ? cap : cap - r.range(0, 3)); ops.push("iter"); ops.push("obs");
            bulk("get", r.range(1, cap)); ops.push("iter");
            bulk("put", r.range(1, cap)); ops.push("iter"); ops.push("obs");
            if (r.chance(1, 2)) { ops.push(r.chance(1, 2) ? "ovr1" : "ovr0"); bulk("put", r.range(1, 20)); ops.push("iter"); }
            if (r.chance(1, 3)) { ops.push("clear"); bulk("put", r.range(1, 5)); ops.push("iter"); }
            int tail = (int)r.below(6); for (int i = 0; i < tail; ++i) ops.push(r.chance(1, 2) ? "put" : "get");
        }
        p["ops"] = ops;
        return p;
    }

    bool nontrivial(const Ctx &c) const override { return c.ops_done > 0; }

    void exec(const Json &plan, Ctx &c) override {
        int64_t cap = plan.geti("cap", 1); if (cap < 1) cap = 1; if (cap > 80000) cap = 80000;
        if (cap >= 65536) COUNT("probe.capacity_of_64k_elements_or_more");
        if (cap > 255 && cap < 65536 && (plan.geti("type") % 5) == 0) COUNT("probe.octet_ring_with_more_than_255_slots");
        int type = (int)(plan.geti("type") % 5); if (type < 0) type = 0;
        const int dirt = (int)(plan.geti("dirt") & 0xff);
        if (dirt & 1) COUNT("probe.ring_object_in_memory_with_odd_octets");
        std::unique_ptr<Ring> R;
        switch (type) {
        case 0: R.reset(new OctetRing((size_t)cap, dirt)); break;
        case 1: R.reset(new U16Ring((size_t)cap, dirt)); break;
        case 2: R.reset(new U32Ring((size_t)cap, dirt)); break;
        case 3: R.reset(new U64Ring((size_t)cap, dirt)); break;
        default: R.reset(new IntRing((size_t)cap, dirt)); break;
        }
        std::deque<uint64_t> M;        // model: values in the queue, oldest first
        std::deque<uint64_t> Ms;       // their serial numbers
        bool ovr = false;
        uint64_t serial = 0, last_got_serial = 0;
        const uint64_t mask = R->mask();
        auto value_of = [&](uint64_t s) -> uint64_t {
            uint64_t v = type == 0 ? 1 + (s % 255) : (1 + s * 2654435761ULL);
            v &= mask; if (v == 0) v = 1;
            return v;
        };
        auto observe = [&](const char *site) {
            size_t sz = R->size(); bool e = R->empty(), f = R->full();
            if (sz != M.size()) c.fail(std::string("size.") + site, "size() = %zu, model %zu", sz, M.size());
            if (e != M.empty()) c.fail(std::string("empty.") + site, "empty() = %d with %zu queued", e, M.size());
            if (f != (M.size() == (size_t)cap)) c.fail(std::string("full.") + site, "full() = %d with %zu of %lld queued", f, M.size(), (long long)cap);
            if (cap <= 4) STATE("rb.cap_head_tail_ovr_size", ((uint64_t)cap << 24) | (R->head() << 16) | (R->tail() << 8) | ((uint64_t)ovr << 4) | M.size());
        };
        auto iterate = [&](const char *site) {
            for (int dir = 0; dir < 2; ++dir) {
                rb_iter it;
                R->iter(&it, dir == 0 ? RING_BUFFER_ITER_OLD_TO_NEW : RING_BUFFER_ITER_NEW_TO_OLD);
                size_t steps = 0; bool bad = false;
                while (!rb_iter_done(&it)) {
                    if (steps >= M.size()) { bad = true; break; }
                    uint64_t v = R->inspect(&it);
                    uint64_t want = dir == 0 ? M[steps] : M[M.size() - 1 - steps];
                    if (v != want) { c.fail(std::string(dir == 0 ? "iter_old_to_new." : "iter_new_to_old.") + site, "step %zu yields %llu, expected %llu", steps, (unsigned long long)v, (unsigned long long)want); return; }
                    rb_iter_advance(&it);
                    ++steps;
                }
                if (bad || steps != M.size())
                    c.fail(std::string(dir == 0 ? "iter_old_to_new." : "iter_new_to_old.") + site, "iterator ran %zu%s steps for %zu queued elements", steps, bad ? "+" : "", M.size());
                c.mix(steps);
            }
            if (M.size() > 1 && R->tail() != (size_t)cap && R->head() <= R->tail()) COUNT("probe.iterator_across_wrap");
        };
        observe("init");
        const Json &ops = plan.get("ops");
        for (size_t oi = 0; oi < ops.size(); ++oi) {
            const Json &oj = ops.at(oi);
            const std::string op = oj.is_str() ? oj.s : oj.gets("op");
            int64_t bulk = oj.is_str() ? 1 : oj.geti("k", 1); if (bulk < 1) bulk = 1; if (bulk > 200000) bulk = 200000;
            if (bulk > 1 && (op == "put" || op == "get")) {   // k puts or gets in a row, observed and iterated once at the end
                for (int64_t q = 0; q < bulk; ++q) {
                    c.ops_done++; c.execs++;
                    if (op == "put") {
                        uint64_t s = ++serial, v = value_of(s);
                        bool was_full = M.size() == (size_t)cap;
                        R->put(v);
                        if (was_full) { if (ovr) { M.pop_front(); Ms.pop_front(); M.push_back(v); Ms.push_back(s); COUNT("probe.override_eviction"); } else COUNT("probe.put_on_full_dropped"); }
                        else { M.push_back(v); Ms.push_back(s); }
                    } else {
                        uint64_t v = R->get();
                        if (M.empty()) { if (v != 0) { c.fail("get.empty", "get on empty buffer returned %llu", (unsigned long long)v); break; } }
                        else { if (v != M.front()) { c.fail("get.fifo", "get returned %llu, oldest queued element is %llu", (unsigned long long)v, (unsigned long long)M.front()); break; } last_got_serial = Ms.front(); M.pop_front(); Ms.pop_front(); }
                    }
                }
                c.ev(EV_API, 5, (uint64_t)bulk, M.size());
                observe(op.c_str());
                if (c.viol.empty()) iterate(op.c_str());
                if (!c.viol.empty()) break;
                continue;
            }
            if (op == "put") {
                c.ops_done++; c.execs++;
                uint64_t s = ++serial, v = value_of(s);
                bool was_full = M.size() == (size_t)cap;
                R->put(v);
                c.ev(EV_API, 1, v, M.size());
                if (was_full) {
                    if (ovr) { M.pop_front(); Ms.pop_front(); M.push_back(v); Ms.push_back(s); COUNT("probe.override_eviction"); if (cap == 1) COUNT("probe.override_eviction_capacity_1"); }
                    else COUNT("probe.put_on_full_dropped");
                } else { M.push_back(v); Ms.push_back(s); }
                if (R->head() == 0 && cap > 1) COUNT("probe.head_wrapped");
                observe("put");
            } else if (op == "get") {
                c.ops_done++; c.execs++;
                uint64_t v = R->get();
                c.ev(EV_API, 2, v, M.size());
                if (M.empty()) { if (v != 0) c.fail("get.empty", "get on empty buffer returned %llu", (unsigned long long)v); COUNT("probe.get_on_empty"); }
                else {
                    if (v != M.front()) c.fail("get.fifo", "get returned %llu, oldest queued element is %llu", (unsigned long long)v, (unsigned long long)M.front());
                    // history: exactly-once, in put order
                    if (Ms.front() <= last_got_serial) c.fail("get.history", "element put as #%llu delivered out of order / twice", (unsigned long long)Ms.front());
                    last_got_serial = Ms.front();
                    M.pop_front(); Ms.pop_front();
                    if (R->tail() == 0 && cap > 1) COUNT("probe.tail_wrapped");
                }
                observe("get");
            } else if (op == "clear") {
                R->clear(); M.clear(); Ms.clear(); c.ev(EV_API, 3, 0, 0);
                COUNT("probe.clear");
                observe("clear");
            } else if (op == "ovr1" || op == "ovr0") {
                ovr = op == "ovr1"; R->ovr(ovr); c.ev(EV_API, 4, ovr, 0);
                observe("override");
            } else if (op == "reinit") {
                // the init call again on the live ring: an empty, non-overwriting ring of the same capacity, whatever it was before
                R->reinit(); M.clear(); Ms.clear(); ovr = false; c.ev(EV_API, 6, 0, 0);
                COUNT("probe.live_ring_initialised_again");
                observe("reinit");
            } else if (op == "obs") {
                observe("observer");
            } else if (op == "iter") {
                iterate("observer");
            }
            if (op == "put" || op == "get" || op == "clear" || op == "reinit") iterate(op.c_str());
            if (!c.viol.empty()) break;
        }
    }
};

}  // namespace

int main(int argc, char **argv) {
    RbHarness h;
    return sim_main(argc, argv, h);
}
