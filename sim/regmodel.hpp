// Reference model of the register table (types, encodings, constraints,
// flat address space), written from include/ufw/register-table.h and the
// property texts - it does not call the library.
#pragma once
#include <cmath>
#include <cstdint>
#include <cstring>
#include <string>
#include <vector>

#include "core.hpp"

namespace regm {

enum { T_U16, T_U32, T_U64, T_S16, T_S32, T_S64, T_F32, T_F64, T_N };
enum { CK_NONE, CK_FAIL, CK_MIN, CK_MAX, CK_RANGE, CK_CB };
enum { AF_R = 1, AF_W = 2, AF_SKIP = 4 };

static inline unsigned wsize(int t) { static const unsigned w[T_N] = {1, 2, 4, 1, 2, 4, 2, 4}; return w[t & 7]; }
static inline uint64_t tmask(int t) { unsigned w = wsize(t); return w == 4 ? ~0ull : ((1ull << (16 * w)) - 1); }
static inline bool is_float(int t) { return t == T_F32 || t == T_F64; }
static inline bool is_signed(int t) { return t >= T_S16 && t <= T_S64; }
static inline bool is_unsigned(int t) { return t <= T_U64; }

static inline float f32_of(uint64_t b) { uint32_t u = (uint32_t)b; float f; memcpy(&f, &u, 4); return f; }
static inline double f64_of(uint64_t b) { double d; memcpy(&d, &b, 8); return d; }
static inline int64_t sint_of(int t, uint64_t b) {
    switch (t) { case T_S16: return (int16_t)(uint16_t)b; case T_S32: return (int32_t)(uint32_t)b; default: return (int64_t)b; }
}
// a float value is storable iff it is zero or normal
static inline bool float_ok(int t, uint64_t b) {
    if (t == T_F32) { uint32_t e = ((uint32_t)b >> 23) & 0xff, m = (uint32_t)b & 0x7fffff; if (e == 0xff) return false; if (e == 0) return m == 0; return true; }
    if (t == T_F64) { uint64_t e = (b >> 52) & 0x7ff, m = b & 0xfffffffffffffull; if (e == 0x7ff) return false; if (e == 0) return m == 0; return true; }
    return true;
}
// typed comparison; returns false when unordered
static inline bool ge(int t, uint64_t x, uint64_t y) {
    x &= tmask(t); y &= tmask(t);
    if (is_unsigned(t)) return x >= y;
    if (is_signed(t)) return sint_of(t, x) >= sint_of(t, y);
    if (t == T_F32) return f32_of(x) >= f32_of(y);
    return f64_of(x) >= f64_of(y);
}
static inline bool le(int t, uint64_t x, uint64_t y) {
    x &= tmask(t); y &= tmask(t);
    if (is_unsigned(t)) return x <= y;
    if (is_signed(t)) return sint_of(t, x) <= sint_of(t, y);
    if (t == T_F32) return f32_of(x) <= f32_of(y);
    return f64_of(x) <= f64_of(y);
}

// value -> words (as host-order atoms whose in-memory octets are the value in table byte order)
static inline void encode(int t, uint64_t bits, bool be, uint16_t *out) {
    unsigned n = wsize(t) * 2;
    uint8_t by[8];
    for (unsigned i = 0; i < n; ++i) { unsigned sh = be ? (n - 1 - i) * 8 : i * 8; by[i] = (uint8_t)(bits >> sh); }
    memcpy(out, by, n);
}
static inline uint64_t decode_bits(int t, bool be, const uint16_t *in) {
    unsigned n = wsize(t) * 2;
    uint8_t by[8]; memcpy(by, in, n);
    uint64_t bits = 0;
    for (unsigned i = 0; i < n; ++i) { unsigned sh = be ? (n - 1 - i) * 8 : i * 8; bits |= (uint64_t)by[i] << sh; }
    return bits;
}

struct AreaSpec { uint32_t base = 0, size = 1; bool mem = true; unsigned flags = AF_R | AF_W; bool has_write = true; bool has_read = true; };
struct RegSpec { int type = 0; uint32_t addr = 0; int ck = 0; uint64_t a = 0, b = 0; int rule = 0; uint64_t def = 0; };

// harness validator rules (deterministic, typed)
static inline bool cb_rule(const RegSpec &r, uint64_t v) {
    v &= tmask(r.type);
    switch (r.rule % 3) {
    case 0: return is_float(r.type) ? ge(r.type, v, 0) : (v & 1) == 0;                 // "even" / non-negative
    case 1: return v != (r.a & tmask(r.type));                                          // "not equal to a"
    default: return (is_float(r.type) || (v & 3) == 0) && le(r.type, v, r.b);           // "multiple of 4 and <= b"
    }
}
// does value v (of the register's own type) satisfy the register's constraint (outside initialisation)?
static inline bool satisfies(const RegSpec &r, uint64_t v, bool during_init = false) {
    switch (r.ck) {
    case CK_NONE: return true;
    case CK_FAIL: return during_init;
    case CK_MIN: return ge(r.type, v, r.a);
    case CK_MAX: return le(r.type, v, r.a);
    case CK_RANGE: return ge(r.type, v, r.a) && le(r.type, v, r.b);
    case CK_CB: return cb_rule(r, v);
    default: return false;
    }
}

struct TableSpec {
    bool be = false;
    std::vector<AreaSpec> areas;
    std::vector<RegSpec> regs;

    int area_of_addr(uint32_t a) const {
        for (size_t i = 0; i < areas.size(); ++i) if (a >= areas[i].base && (uint64_t)a < (uint64_t)areas[i].base + areas[i].size) return (int)i;
        return -1;
    }
    // area that wholly contains the register, or -1
    int area_of_reg(const RegSpec &r) const {
        int ai = area_of_addr(r.addr);
        if (ai < 0) return -1;
        if ((uint64_t)r.addr + wsize(r.type) > (uint64_t)areas[(size_t)ai].base + areas[(size_t)ai].size) return -1;
        return ai;
    }
    bool loads_defaults(size_t ai) const { return areas[ai].has_write && !(areas[ai].flags & AF_SKIP); }
    bool area_writable(size_t ai) const { return areas[ai].has_write && (areas[ai].flags & AF_W); }
    bool area_readable(size_t ai) const { return areas[ai].has_read && (areas[ai].flags & AF_R) != 0; }   // an area without a read callback is not readable whatever its flags say (C03 plans only)
};

// ---- well-formedness reference (property C04)
enum InitRule { I_OK, I_NO_AREAS, I_AREA_ORDER, I_AREA_OVERLAP, I_ENTRY_ORDER, I_ENTRY_OVERLAP, I_ENTRY_HOLE, I_ENTRY_DEFAULT };
struct InitVerdict { int rule; uint32_t index; };
static inline bool default_ok(const RegSpec &r) { return float_ok(r.type, r.def & tmask(r.type)) && satisfies(r, r.def, true); }
// all acceptable "first violated rule" answers (see DESIGN.md: class order and entry order are both accepted where they differ)
static inline std::vector<InitVerdict> ref_init(const TableSpec &t) {
    std::vector<InitVerdict> v;
    if (t.areas.empty()) { v.push_back({I_NO_AREAS, 0}); return v; }
    for (size_t i = 1; i < t.areas.size(); ++i) {
        if (t.areas[i].base < t.areas[i - 1].base) { v.push_back({I_AREA_ORDER, (uint32_t)i}); return v; }
        if ((uint64_t)t.areas[i].base < (uint64_t)t.areas[i - 1].base + t.areas[i - 1].size) { v.push_back({I_AREA_OVERLAP, (uint32_t)i}); return v; }
    }
    for (size_t i = 1; i < t.regs.size(); ++i) {
        if (t.regs[i].addr < t.regs[i - 1].addr) { v.push_back({I_ENTRY_ORDER, (uint32_t)i}); return v; }
        if ((uint64_t)t.regs[i].addr < (uint64_t)t.regs[i - 1].addr + wsize(t.regs[i - 1].type)) { v.push_back({I_ENTRY_OVERLAP, (uint32_t)i}); return v; }
    }
    int first_hole = -1, first_def = -1;
    for (size_t i = 0; i < t.regs.size(); ++i) {
        int ai = t.area_of_reg(t.regs[i]);
        if (ai < 0) { if (first_hole < 0) first_hole = (int)i; continue; }
        if (t.loads_defaults((size_t)ai) && !default_ok(t.regs[i]) && first_def < 0) first_def = (int)i;
    }
    if (first_hole < 0 && first_def < 0) { v.push_back({I_OK, 0}); return v; }
    if (first_hole >= 0 && first_def >= 0) {
        // by rule class: hole first; by register order: whichever has the lower index
        v.push_back({I_ENTRY_HOLE, (uint32_t)first_hole});
        if (first_def < first_hole) v.push_back({I_ENTRY_DEFAULT, (uint32_t)first_def});
        return v;
    }
    if (first_hole >= 0) v.push_back({I_ENTRY_HOLE, (uint32_t)first_hole});
    else v.push_back({I_ENTRY_DEFAULT, (uint32_t)first_def});
    return v;
}

}  // namespace regm
