// Simulated environment behind the library's Source / Sink / BlockAllocator
// seams. Everything here is a stub; the library code in front of it is real.
#pragma once
#include <sys/mman.h>
#include <cerrno>
#include <cstdint>
#include <cstdlib>
#include <cstring>
#include <memory>
#include <vector>

#include "core.hpp"
#include "hdrmacros.hpp"

#include <ufw/allocator.h>
#include <ufw/byte-buffer.h>
#include <ufw/endpoints.h>

enum : uint32_t {
    EV_SRC_CALL = 1, EV_SNK_CALL = 2, EV_API = 3, EV_ALLOC = 4, EV_FREE = 5, EV_MEDIUM_RD = 6, EV_MEDIUM_WR = 7,
    EV_AREA_RD = 8, EV_AREA_WR = 9, EV_BACKEND = 10, EV_VALIDATOR = 11, EV_ITER_CB = 12, EV_NOTE = 13
};

static inline bool bytes_eq(const void *a, const void *b, size_t n) { return n == 0 || memcmp(a, b, n) == 0; }

static const int64_t SCRIPT_REST = 1 << 20;  // "transfer everything asked for"

// Deterministic stream content: octet i is a function of i such that loss,
// duplication and reordering of neighbours are all visible.
static inline uint8_t stream_octet(uint64_t i) { return (uint8_t)((i * 37u + 11u) ^ (i >> 8) ^ ((i >> 3) * 5u)); }

// A behaviour script is a list of integers consumed one per driver call:
//   k > 0  transfer at most k octets (octet drivers: one octet)
//   0      return 0 (nothing transferred, "try again")
//   k < 0  return k (-EINTR, -EAGAIN: transient; anything else: hard error)
// When the script is exhausted the driver behaves perfectly (faults stop).
struct Script {
    std::vector<int64_t> e;
    size_t pos = 0;
    void load(const Json &j) { e.clear(); pos = 0; for (size_t i = 0; i < j.size(); ++i) e.push_back(j.ati(i)); }
    void clear() { e.clear(); pos = 0; }
    bool next(int64_t &v) { if (pos >= e.size()) return false; v = e[pos++]; return true; }
    bool exhausted() const { return pos >= e.size(); }
};

static inline void count_fault(Ctx *c, int64_t v, bool source) {
    c->faults_fired++;
    if (v == 0) { if (source) COUNT("fault.src_zero_return"); else COUNT("fault.snk_zero_return"); }
    else if (v == -EINTR) { if (source) COUNT("fault.src_eintr"); else COUNT("fault.snk_eintr"); }
    else if (v == -EAGAIN) { if (source) COUNT("fault.src_eagain"); else COUNT("fault.snk_eagain"); }
    else if (v < 0) { if (source) COUNT("fault.src_hard_error"); else COUNT("fault.snk_hard_error"); }
}

// endpoints are set up either through the *_init() functions or through the header's static initialiser macros (per plan)
static bool g_bind_with_macros = false;

struct SimSource {
    Ctx *c = nullptr;
    std::vector<uint8_t> data;     // the whole stream
    size_t pos = 0;                // octets handed out so far (the stream cursor)
    bool octet_kind = false;
    Script script;
    // per-op bookkeeping (reset by begin_op)
    uint64_t calls = 0;
    std::vector<int64_t> errors;   // negative values returned in this op
    uint64_t partials = 0, zeros = 0;
    int64_t err_pos = -1; int err_code = 0;   // position-triggered error (returned when pos == err_pos, once)
    bool end_is_zero = false;      // at end of data return 0 instead of -ENODATA (never used by default)
    // optional: the stream really lives in one of the library's own sources (source_from_buffer / source_from_chunks); the scripted
    // driver then sits in front of it and passes every transfer on, so that the library's driver functions are what moves the octets
    Source *inner = nullptr; bool inner_overrun = false; int inner_failed = 0;   // inner_failed: the library's source reported an error although the stream has not ended
    ssize_t pass_on(void *buf, size_t k) {
        ssize_t r = inner->source.chunk(inner->driver, buf, k);
        if (r < 0 && pos < data.size() && k > 0 && !inner_failed) inner_failed = (int)r;
        if (r > 0) { if ((size_t)r > k || pos + (size_t)r > data.size()) inner_overrun = true; pos += (size_t)r; if (pos > data.size()) pos = data.size(); }
        return r;
    }

    // a second task scheduled at a seam point, as on the sink side: when the source driver is entered for the (intrude_at)-th time in this op,
    // another piece of work that uses the library on objects of its own runs to completion first
    int64_t intrude_at = -1; void (*intruder)(void *) = nullptr; void *intruder_arg = nullptr;
    void maybe_intrude() { if (intruder && intrude_at >= 0 && (int64_t)calls == intrude_at + 1) { void (*f)(void *) = intruder; intruder = nullptr; f(intruder_arg); } }

    void begin_op(const Json &scr) { script.load(scr); calls = 0; errors.clear(); partials = zeros = 0; }
    void begin_op() { script.clear(); calls = 0; errors.clear(); partials = zeros = 0; }

    ssize_t chunk(void *buf, size_t n) {
        ++calls;
        c->step_budget();
        maybe_intrude();
        ssize_t rv;
        int64_t s;
        if (err_pos >= 0 && (int64_t)pos == err_pos) {
            err_pos = -1; rv = -err_code; errors.push_back(rv); c->faults_fired++; COUNT("fault.src_error_at_position");
        } else if (pos >= data.size()) {
            rv = -ENODATA;
            if (inner) { rv = pass_on(buf, n); if (rv >= 0) { inner_overrun = true; rv = -ENODATA; } }   // the library's source has to say so itself
            errors.push_back(rv);
        } else if (script.next(s)) {
            if (s <= 0) { rv = (ssize_t)s; count_fault(c, s, true); if (s < 0) errors.push_back(s); else ++zeros; }
            else if (inner) {
                size_t k = (size_t)s; if (k > n) k = n;
                const size_t left = data.size() - pos;
                rv = pass_on(buf, k);
                if (rv < 0) errors.push_back(rv); else if ((size_t)rv < n && (size_t)rv < left) { ++partials; COUNT("fault.src_partial_transfer"); c->faults_fired++; }
            } else {
                size_t k = (size_t)s; if (k > n) k = n; if (k > data.size() - pos) k = data.size() - pos;
                if (k < n && k < data.size() - pos) { ++partials; COUNT("fault.src_partial_transfer"); c->faults_fired++; }
                memcpy(buf, data.data() + pos, k); pos += k; rv = (ssize_t)k;
            }
        } else if (inner) {
            const size_t left = data.size() - pos;
            rv = pass_on(buf, n);
            if (rv < 0) errors.push_back(rv); else if ((size_t)rv < n && (size_t)rv < left) { ++partials; COUNT("fault.src_partial_transfer_at_chunk_end"); c->faults_fired++; }
        } else {
            size_t k = n; if (k > data.size() - pos) k = data.size() - pos;
            memcpy(buf, data.data() + pos, k); pos += k; rv = (ssize_t)k;
        }
        c->ev(EV_SRC_CALL, n, (uint64_t)rv, pos);
        return rv;
    }
    int octet(void *out) {
        ++calls;
        c->step_budget();
        maybe_intrude();
        int rv;
        int64_t s;
        if (err_pos >= 0 && (int64_t)pos == err_pos) {
            err_pos = -1; rv = -err_code; errors.push_back(rv); c->faults_fired++; COUNT("fault.src_error_at_position");
        } else if (pos >= data.size()) {
            rv = -ENODATA;
            if (inner) { unsigned char dummy; rv = (int)pass_on(&dummy, 1); if (rv >= 0) { inner_overrun = true; rv = -ENODATA; } }
            errors.push_back(rv);
        } else if (script.next(s) && s <= 0) {
            rv = (int)s; count_fault(c, s, true); if (s < 0) errors.push_back(s); else ++zeros;
        } else if (inner) {
            rv = (int)pass_on(out, 1); if (rv < 0) errors.push_back(rv);
        } else {
            *(unsigned char *)out = data[pos++]; rv = 1;
        }
        c->ev(EV_SRC_CALL, 1, (uint64_t)(int64_t)rv, pos);
        return rv;
    }
    static ssize_t chunk_cb(void *d, void *buf, size_t n) { return ((SimSource *)d)->chunk(buf, n); }
    static int octet_cb(void *d, void *out) { return ((SimSource *)d)->octet(out); }
    void bind(Source *s) {
        if (g_bind_with_macros) { *s = octet_kind ? hm_octet_source(octet_cb, this) : hm_chunk_source(chunk_cb, this); return; }   // OCTET_SOURCE_INIT / CHUNK_SOURCE_INIT
        if (octet_kind) octet_source_init(s, octet_cb, this);
        else chunk_source_init(s, chunk_cb, this);
    }
    // the source-side getbuffer extension: the source lends a window of its own (exact-size block) to the plumbing
    std::unique_ptr<uint8_t[]> lend_blk; size_t lend_win = 0;
    static ByteBuffer lend_cb(Source *s) { SimSource *me = (SimSource *)s->driver; ByteBuffer b; b.data = me->lend_blk.get(); b.size = me->lend_win; b.used = me->lend_win; b.offset = 0; return b; }
    void lend(Source *s, size_t window) { if (!window) return; lend_win = window; lend_blk.reset(new uint8_t[window]); memset(lend_blk.get(), 0xee, window); s->ext.getbuffer = lend_cb; }
    bool saw_error(int64_t e) const { for (auto x : errors) if (x == e) return true; return false; }
};

struct SimSink {
    Ctx *c = nullptr;
    std::vector<uint8_t> got;
    bool octet_kind = false;
    Script script;
    uint64_t calls = 0;
    std::vector<int64_t> errors;
    uint64_t partials = 0, zeros = 0;
    int64_t err_pos = -1; int err_code = 0;  // error when got.size() == err_pos (once)
    size_t capacity = SIZE_MAX;              // -ENOMEM beyond this
    // a second task scheduled at a seam point: when the sink driver is entered for the (intrude_at)-th time in this op, another piece of work that
    // uses the library on objects of its own runs to completion first (nothing it does may be visible to the interrupted call, and vice versa)
    int64_t intrude_at = -1; void (*intruder)(void *) = nullptr; void *intruder_arg = nullptr;
    void maybe_intrude() { if (intruder && intrude_at >= 0 && (int64_t)calls == intrude_at + 1) { void (*f)(void *) = intruder; intruder = nullptr; f(intruder_arg); } }
    // optional: the octets really go into one of the library's own sinks (sink_to_buffer); 'got' is read back from that buffer
    Sink *inner = nullptr; ByteBuffer *inner_bb = nullptr;
    ssize_t pass_on(const void *buf, size_t k) {
        ssize_t r = inner->sink.chunk(inner->driver, buf, k);
        const size_t u = inner_bb->used <= inner_bb->size ? inner_bb->used : inner_bb->size;   // read back what is new; the whole content is compared once at the end of the run
        if (u >= got.size()) got.insert(got.end(), inner_bb->data + got.size(), inner_bb->data + u); else got.resize(u);
        return r;
    }

    void begin_op(const Json &scr) { script.load(scr); calls = 0; errors.clear(); partials = zeros = 0; }
    void begin_op() { script.clear(); calls = 0; errors.clear(); partials = zeros = 0; }

    ssize_t chunk(const void *buf, size_t n) {
        ++calls;
        c->step_budget();
        maybe_intrude();
        ssize_t rv;
        int64_t s;
        if (err_pos >= 0 && (int64_t)got.size() == err_pos) {
            err_pos = -1; rv = -err_code; errors.push_back(rv); c->faults_fired++; COUNT("fault.snk_error_at_position");
        } else if (!inner && got.size() >= capacity) {
            rv = -ENOMEM; errors.push_back(rv);
        } else if (inner) {
            size_t k = n;
            if (script.next(s)) { if (s <= 0) { rv = (ssize_t)s; count_fault(c, s, false); if (s < 0) errors.push_back(s); else ++zeros; c->ev(EV_SNK_CALL, n, (uint64_t)rv, got.size()); return rv; } if ((size_t)s < k) k = (size_t)s; }
            if (k < n) { ++partials; COUNT("fault.snk_partial_transfer"); c->faults_fired++; }
            rv = pass_on(buf, k); if (rv < 0) { errors.push_back(rv); COUNT("fault.real_sink_buffer_full"); c->faults_fired++; }
        } else if (script.next(s)) {
            if (s <= 0) { rv = (ssize_t)s; count_fault(c, s, false); if (s < 0) errors.push_back(s); else ++zeros; }
            else {
                size_t k = (size_t)s; if (k > n) k = n; if (k > capacity - got.size()) k = capacity - got.size();
                if (k < n) { ++partials; COUNT("fault.snk_partial_transfer"); c->faults_fired++; }
                got.insert(got.end(), (const uint8_t *)buf, (const uint8_t *)buf + k); rv = (ssize_t)k;
            }
        } else {
            size_t k = n; if (k > capacity - got.size()) k = capacity - got.size();
            got.insert(got.end(), (const uint8_t *)buf, (const uint8_t *)buf + k); rv = (ssize_t)k;
        }
        c->ev(EV_SNK_CALL, n, (uint64_t)rv, got.size());
        return rv;
    }
    int octet(unsigned char ch) {
        ++calls;
        c->step_budget();
        maybe_intrude();
        int rv;
        int64_t s;
        if (err_pos >= 0 && (int64_t)got.size() == err_pos) {
            err_pos = -1; rv = -err_code; errors.push_back(rv); c->faults_fired++; COUNT("fault.snk_error_at_position");
        } else if (!inner && got.size() >= capacity) {
            rv = -ENOMEM; errors.push_back(rv);
        } else if (script.next(s) && s <= 0) {
            rv = (int)s; count_fault(c, s, false); if (s < 0) errors.push_back(s); else ++zeros;
        } else if (inner) {
            rv = (int)pass_on(&ch, 1); if (rv < 0) { errors.push_back(rv); COUNT("fault.real_sink_buffer_full"); c->faults_fired++; }
        } else {
            got.push_back(ch); rv = 1;
        }
        c->ev(EV_SNK_CALL, 1, (uint64_t)(int64_t)rv, got.size());
        return rv;
    }
    static ssize_t chunk_cb(void *d, const void *buf, size_t n) { return ((SimSink *)d)->chunk(buf, n); }
    static int octet_cb(void *d, unsigned char ch) { return ((SimSink *)d)->octet(ch); }
    void bind(Sink *s) {
        if (g_bind_with_macros) { *s = octet_kind ? hm_octet_sink(octet_cb, this) : hm_chunk_sink(chunk_cb, this); return; }   // OCTET_SINK_INIT / CHUNK_SINK_INIT
        if (octet_kind) octet_sink_init(s, octet_cb, this);
        else chunk_sink_init(s, chunk_cb, this);
    }
    bool saw_error(int64_t e) const { for (auto x : errors) if (x == e) return true; return false; }
};

// Exact-size heap block between ASan redzones, plus our own canary copy so
// that writes *inside* the block but outside a designated region are seen.
struct GuardedBlock {
    uint8_t *p = nullptr;
    size_t n = 0;
    std::vector<uint8_t> shadow;
    explicit GuardedBlock(size_t size, uint8_t fill = 0xa5) : n(size) {
        p = (uint8_t *)::operator new(size ? size : 1);   // not malloc(): regpsim wraps that symbol to watch the library's heap use
        for (size_t i = 0; i < size; ++i) p[i] = (uint8_t)(fill ^ (i * 13));
        snap();
    }
    ~GuardedBlock() { ::operator delete(p); }
    GuardedBlock(const GuardedBlock &) = delete;
    GuardedBlock &operator=(const GuardedBlock &) = delete;
    void snap() { shadow.assign(p, p + n); }
    // true when every octet outside [lo,hi) still equals the snapshot
    bool unchanged_outside(size_t lo, size_t hi, size_t *where = nullptr) const {
        for (size_t i = 0; i < n; ++i) {
            if (i >= lo && i < hi) continue;
            if (p[i] != shadow[i]) { if (where) *where = i; return false; }
        }
        return true;
    }
};

// errno values used as "hard" driver errors in scripts
// errors a driver may fail with: any negative value is "a hard error" unless it is -EINTR / -EAGAIN; the list includes codes that do not fit 7 or 8 bits
static const int HARD_ERRORS[] = {EIO, EPIPE, ENOMEM, ECONNRESET, EBADF, ENOSPC, 129 /* EKEYREJECTED */, 133 /* EHWPOISON */, 255, 256, 4095, 32768, 70000};
static const size_t N_HARD_ERRORS = sizeof HARD_ERRORS / sizeof *HARD_ERRORS;
static inline bool is_transient(int64_t e) { return e == -EINTR || e == -EAGAIN; }

// ---- transfers that cannot be materialised (2^31 octets and more): a chunk-style driver over a reserved address range that nobody
// ever touches. A chunk driver is only handed pointers and counts, so it can check that it is offered exactly the next stretch of
// the caller's N octets each time without a single octet being stored.
static unsigned char *huge_base() {
    static unsigned char *b = nullptr;
    if (!b) { void *m = mmap(nullptr, (size_t)1 << 35, PROT_NONE, MAP_PRIVATE | MAP_ANONYMOUS | MAP_NORESERVE, -1, 0); b = m == MAP_FAILED ? nullptr : (unsigned char *)m; }
    return b;
}
struct VirtualDrv {
    Ctx *c = nullptr; const unsigned char *base = nullptr; uint64_t total = 0, moved = 0, calls = 0;
    std::vector<int64_t> caps; size_t ci = 0; std::vector<int64_t> errors;
    bool bad_ptr = false, bad_n = false; uint64_t zeros = 0, partials = 0, maxpiece = 0;
    // optionally real octets (a length prefix) may be written in front of the virtual payload; they are recorded
    bool accept_small = false, small_after_payload = false; std::vector<uint8_t> small;
    ssize_t call(const void *buf, size_t n) {
        ++calls; c->step_budget();
        // real octets in front of the payload are told from the payload by address while the virtual range is small enough for that to be safe,
        // and by position (everything that is not offered at 'base' before the payload began) when the range spans half the address space
        const bool outside = (uintptr_t)buf < (uintptr_t)base || (uintptr_t)buf - (uintptr_t)base > total;
        const bool is_small = accept_small && (total <= ((uint64_t)1 << 36) ? outside : (moved == 0 && buf != (const void *)base));
        if (is_small) {
            if (moved) small_after_payload = true;
            int64_t s = ci < caps.size() ? caps[ci++] : INT64_MAX;
            ssize_t rv;
            if (s <= 0) { rv = (ssize_t)s; if (s < 0) errors.push_back(s); else ++zeros; c->faults_fired++; }
            else { size_t k = n < (uint64_t)s ? n : (size_t)s; if (k > 64) { bad_n = true; k = 64; } small.insert(small.end(), (const uint8_t *)buf, (const uint8_t *)buf + k); rv = (ssize_t)k; }
            c->ev(EV_SNK_CALL, n, (uint64_t)rv, small.size());
            return rv;
        }
        if ((uintptr_t)buf != (uintptr_t)base + moved) bad_ptr = true;
        if (n == 0 || n > total - moved) bad_n = true;
        int64_t s = ci < caps.size() ? caps[ci++] : INT64_MAX;
        ssize_t rv;
        if (s <= 0) { rv = (ssize_t)s; if (s < 0) { errors.push_back(s); } else ++zeros; c->faults_fired++; COUNT(s == 0 ? "fault.zero_return" : is_transient(s) ? "fault.transient_error" : "fault.hard_error"); }
        else { uint64_t k = n < (uint64_t)s ? n : (uint64_t)s; if (k > total - moved) k = total - moved; if (k < n) { ++partials; c->faults_fired++; COUNT("fault.huge_partial_transfer"); } moved += k; if (k > maxpiece) maxpiece = k; rv = (ssize_t)k; }
        c->ev(EV_SNK_CALL, n, (uint64_t)rv, moved);
        return rv;
    }
    static ssize_t sink_cb(void *d, const void *buf, size_t n) { return ((VirtualDrv *)d)->call(buf, n); }
    static ssize_t source_cb(void *d, void *buf, size_t n) { return ((VirtualDrv *)d)->call(buf, n); }
};

