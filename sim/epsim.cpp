// epsim - endpoints under scripted drivers (property C17)
#include "driver.hpp"
#include "seams.hpp"

#include <climits>
#include <sys/mman.h>

namespace {

const std::vector<std::string> OPS = {
    "get_chunk", "put_chunk", "get_atmost", "put_atmost", "get_octet", "put_octet",
    "cbc", "n_cbc", "drain_cbc", "sts_some", "sts_atmost", "sts_n", "sts_drain",
    "some_aux", "atmost_aux", "n_aux", "drain_aux",
    "some_gb", "atmost_gb", "n_gb", "drain_gb",
    "zero_to_sink", "src_to_null", "empty_get"};   // the library's trivial endpoints (source_zero, sink_null, source_empty) on one side   // sts_* with a source that implements the getbuffer extension (it lends its own window)

// the long haul: 2^32 and more octets really moved one by one (thorough tier, one plan per batch). Octet drivers that compute the
// stream instead of storing it and log nothing per call - each octet still costs a real source call and a real sink call.
struct LongDrv {
    Ctx *c = nullptr; uint64_t produced = 0, consumed = 0, limit = 0; bool order_ok = true;
    static unsigned char at(uint64_t i) { return (unsigned char)(i * 131u + (i >> 8) * 7u + 5u); }
    static int src(void *d, void *out) { LongDrv *m = (LongDrv *)d; m->c->step_budget(); if (m->produced >= m->limit) return -ENODATA; *(unsigned char *)out = at(m->produced++); return 1; }
    static int snk(void *d, unsigned char x) { LongDrv *m = (LongDrv *)d; m->c->step_budget(); if (x != at(m->consumed)) m->order_ok = false; m->consumed++; return 1; }
};

static ByteBuffer *g_lent = nullptr;
static ByteBuffer lend_buffer(Source *) { return *g_lent; }

// Transfers of 2^31 octets and more (every N up to SSIZE_MAX is a valid count): a chunk-style driver over a reserved address range
// that nobody ever touches. The endpoint layer only forwards pointers and counts to a chunk driver, so the driver can check that it
// is offered exactly the next stretch of the caller's N octets each time without a single octet being stored.
const std::vector<std::string> HUGE_OPS = {"put_huge", "get_huge", "put_atmost_huge", "get_atmost_huge"};
static uint8_t put_pattern(size_t opi, size_t j) { return (uint8_t)(0x5a ^ stream_octet(opi * 977u + j * 3u + 1u)); }

// a second task scheduled at a seam point (see SimSink::maybe_intrude): plumbing between endpoints of its own
struct EpIntruder { Ctx *c; int64_t arg; };
static void second_plumbing_job(void *a) {
    EpIntruder &I = *(EpIntruder *)a; Ctx &c = *I.c;
    SimSource s; SimSink k; s.c = &c; k.c = &c; s.octet_kind = (I.arg & 1) != 0; k.octet_kind = (I.arg & 2) != 0;
    const size_t n = 3 + (size_t)((I.arg >> 2) & 7);
    s.data.resize(n + 2); for (size_t i = 0; i < s.data.size(); ++i) s.data[i] = (uint8_t)(0x77 ^ (i * 29 + (size_t)I.arg));
    Source so; Sink si; s.bind(&so); k.bind(&si);
    unsigned char auxmem[4]; ByteBuffer ab; ab.data = auxmem; ab.size = 4; ab.used = 1 + (size_t)((I.arg >> 5) & 3); ab.offset = 0;
    ssize_t rc;
    switch ((I.arg >> 7) % 4) {
    case 0: rc = sts_n_aux(&so, &si, &ab, n); break;
    case 1: rc = sts_n_cbc(&so, &si, n); break;
    case 2: rc = sts_n(&so, &si, n); break;
    default: { unsigned char tmp[16]; rc = source_get_chunk(&so, tmp, n); if (rc == (ssize_t)n) rc = sink_put_chunk(&si, tmp, n); break; }
    }
    COUNT("probe.second_plumbing_job_during_a_sink_call");
    if (rc != (ssize_t)n || k.got.size() != n || !bytes_eq(k.got.data(), s.data.data(), n)) c.fail("intruder.plumbing", "a transfer of %zu octets between endpoints of a second task, run while another task's sink call was pending, came out wrong (rc %zd, %zu octets)", n, rc, k.got.size());
}

struct EpHarness : Harness {
    const char *name() const override { return "epsim"; }
    std::vector<std::string> props() const override { return {"C17"}; }
    std::vector<std::string> probes(const std::string &) const override {
        return {"eintr_retried", "eagain_retried", "zero_return_retried", "partial_then_rest", "hard_error_after_prefix", "octet_driver_through_chunk_api",
                "chunk_driver_through_octet_api", "aux_smaller_than_n_multiple_rounds", "drain_end_mid_chunk", "drain_to_end_of_stream", "invalid_count_refused", "source_lends_its_buffer", "stream_in_library_buffer_source", "stream_in_library_chunk_source", "output_in_library_buffer_sink", "chunk_list_with_empty_chunk", "chunk_list_with_nulled_chunk", "trivial_endpoint", "endpoints_from_static_initialisers", "earlier_transfer_broke_off_before_the_scenario", "second_plumbing_job_during_a_sink_call", "auxiliary_buffer_is_the_sources_own_buffer", "count_of_64k_octets_or_more_really_moved", "huge_transfer_in_one_call", "huge_transfer_in_pieces", "huge_piece_of_4gib_or_more"};
    }
    uint64_t runs(const std::string &, const Tier &t) const override { return t.thorough() ? 12000000 : 3000000; }
    unsigned time_limit(const Json &plan) const override { const Json &ops = plan.get("ops"); for (size_t i = 0; i < ops.size(); ++i) if (ops.at(i).gets("op") == "n_cbc_long") return 1500; return 60; }

    Json describe(const std::string &) const override {
        Json d = Json::obj();
        d["rule"] = "plans = {driver kinds, stream length, ops[]}; each op is one endpoint API call with its own source/sink "
                    "behaviour scripts over {k,rest,0,-EINTR,-EAGAIN,hard errno}; generated from the per-run seed; a run is "
                    "non-trivial when at least one API call reached a driver; distinct = distinct execution fingerprints "
                    "(FNV-1a over every driver call (n, result, cursor) and every API result)";
        Json real = Json::arr(); for (const char *s : {"src/endpoints/core.c", "src/byte-buffer.c (byte_buffer_rewind/rest via sts_*_aux)", "src/endpoints/buffer.c (source_from_buffer, source_from_chunks, sink_to_buffer behind the scripted drivers in 1 plan of 4 each)", "src/endpoints/trivial.c (source_zero, source_empty, sink_null)"}) real.push(s);
        Json stubs = Json::arr(); for (const char *s : {"scripted source driver (octet or chunk style)", "scripted recording sink driver (octet or chunk style)"}) stubs.push(s);
        d["real"] = real; d["stubs"] = stubs;
        Json as = Json::arr();
        as.push("nothing is demanded about the source position after a call that returned an error; the model resynchronises on the drivers' cursors");
        as.push("source_get_octet/sink_put_octet are pass-through: only 'result equals the driver's result' is checked");
        as.push("the getbuffer extension has no implementer in the repository: sts_some/atmost/n/drain run on their fallback path and, with a scripted source that lends its own window (source-side extension), on the fast path; the sink-side extension is not simulated (sts_atmost_via_sink never tells the sink how much was written into the buffer it lent, so no sink could implement it meaningfully)");
        as.push("plumbing may fail with a transient error (EINTR/EAGAIN) produced by a driver; then only 'error returned, sink holds a prefix' is demanded");
        as.push("auxiliary buffers always have a non-empty designated region [offset, used)");
        as.push("transfers of 2^31 octets and more run through a chunk-style driver over a reserved, never-touched address range: pointers and counts are checked, no octet is stored; octet-style drivers and the plumbing are not run at that size");
        as.push("driver behaviour scripts are sampled, not enumerated (the 8^8 scripts per case of the property's quantifier are outside this technique)");
        d["assumptions"] = as;
        return d;
    }

    // ------------------------------------------------------------ generation
    Json gen_script(Rng &r, int maxlen, bool allow_hard, bool octet, bool sink = false) {
        Json s = Json::arr();
        int n = (int)r.below((uint64_t)maxlen + 1);
        if (r.chance(1, 3)) n = 0;
        for (int i = 0; i < n; ++i) {
            switch (r.below(10)) {
            case 0: case 1: s.push(1); break;
            case 2: s.push(octet ? 1 : 2); break;
            case 3: s.push((long long)r.range(1, 7)); break;
            case 4: s.push((long long)SCRIPT_REST); break;
            case 5: case 6: s.push(0); break;
            case 7: s.push(-EINTR); break;
            case 8: s.push(-EAGAIN); break;
            default:
                if (allow_hard && r.chance(1, 3)) { size_t hi = (size_t)r.below(N_HARD_ERRORS + (sink ? 2 : 0)); s.push(hi < N_HARD_ERRORS ? -HARD_ERRORS[hi] : -ENODATA); }   // a sink may fail with the code that means "end of data" on the source side
                else s.push(1);
            }
        }
        return s;
    }

    Json gen(const std::string &, Rng &r, const Tier &t, uint64_t idx) override {
        Json p = Json::obj();
        if (t.thorough() && idx == 0) {   // one long haul per thorough batch
            Json o = Json::obj(); o["op"] = "n_cbc_long"; o["n"] = (long long)((1ll << 32) + 3);
            Json ops = Json::arr(); ops.push(o); p["ops"] = ops; p["len"] = 0; p["src_octet"] = true; p["snk_octet"] = true;
            return p;
        }
        bool so = r.chance(1, 2), ko = r.chance(1, 2);
        p["src_octet"] = so; p["snk_octet"] = ko; if (r.chance(1, 3)) p["macro_init"] = 1; if (r.chance(1, 6)) p["prelude"] = (long long)r.below(32);
        int maxn = t.thorough() ? (r.chance(1, 8) ? 4096 : (r.chance(1, 3) ? 64 : 6)) : 6;
        int nops = (int)r.range(1, t.thorough() ? 12 : 6);
        int maxscript = t.thorough() ? (r.chance(1, 4) ? 64 : 8) : 8;
        // swarm: enable a random subset of op kinds and fault kinds per run
        std::vector<std::string> enabled;
        for (auto &o : OPS) if (r.chance(1, 2)) enabled.push_back(o);
        if (enabled.empty()) enabled.push_back(r.pick(OPS));
        bool hard = r.chance(1, 3);
        Json ops = Json::arr();
        int64_t need = 0;
        for (int i = 0; i < nops; ++i) {
            Json o = Json::obj();
            std::string k = r.pick(enabled);
            if (r.chance(1, 16)) {  // a transfer beyond 2^31 octets through a virtual chunk driver
                static const int64_t NS[] = {(1ll << 31) - 1, 1ll << 31, (1ll << 31) + 1, (1ll << 32) - 1, 1ll << 32, (1ll << 32) + 3, 3ll << 30, 1ll << 33, (1ll << 34) + 5};
                static const int64_t CAPS[] = {INT64_MAX, INT64_MAX, 1ll << 31, (1ll << 31) - 1, 1ll << 32, (1ll << 32) + 2, 1ll << 30, 1, 7, 0, -EINTR, -EAGAIN};
                o["op"] = r.pick(HUGE_OPS);
                o["n"] = (long long)(r.chance(1, 4) ? (int64_t)r.range(1ll << 31, 1ll << 34) : NS[r.below(9)]);
                Json caps = Json::arr(); int nc = (int)r.below(5);
                for (int j = 0; j < nc; ++j) caps.push((long long)(hard && r.chance(1, 8) ? -HARD_ERRORS[r.below(sizeof HARD_ERRORS / sizeof *HARD_ERRORS)] : CAPS[r.below(12)]));
                o["caps"] = caps;
                ops.push(o);
                continue;
            }
            o["op"] = k;
            int64_t n = r.chance(1, 3) ? r.range(1, 3) : r.range(1, maxn);
            if (r.chance(1, t.thorough() ? 2000 : 8000)) { static const int64_t BIG[] = {65535, 65536, 65537, 70000}; n = BIG[r.below(4)]; }   // counts that do not fit 16 bits, really moved
            bool chunky = k == "get_chunk" || k == "put_chunk";
            if (chunky && r.chance(1, 24)) n = r.chance(1, 2) ? 0 : -1;  // invalid counts: 0 and SSIZE_MAX+1
            o["n"] = (long long)n;
            if (r.chance(1, 6)) { Json ij = Json::arr(); ij.push((long long)r.below(6)); ij.push((long long)r.below(1 << 20)); o["intrude"] = ij; }
            if (r.chance(1, 3)) o["alias"] = 1;
            o["ss"] = gen_script(r, maxscript, hard, so);
            o["ks"] = gen_script(r, maxscript, hard, ko, true);
            if (k.size() > 4 && (k.compare(k.size() - 4, 4, "_aux") == 0 || k.compare(k.size() - 3, 3, "_gb") == 0)) {
                int64_t size = r.range(1, t.thorough() ? 64 : 8);
                int64_t used = r.range(1, size), off = r.range(0, used - 1);
                Json a = Json::arr(); a.push((long long)size); a.push((long long)used); a.push((long long)off);
                o["aux"] = a;
            }
            ops.push(o);
            if (n > 0) need += n;
        }
        p["ops"] = ops;
        // stream usually long enough for everything; sometimes it ends early (end-of-stream paths)
        int64_t len = r.chance(1, 5) ? r.range(0, need) : need + r.range(0, 12);
        p["len"] = (long long)len;
        // the library's own endpoints behind the scripted drivers: the stream lives in a byte buffer or a chunk list, the sink is a byte buffer
        if (r.chance(1, 4)) {
            Json rs = Json::obj(); rs["kind"] = r.chance(1, 3) ? 1 : 2;
            Json cuts = Json::arr(); int nc = (int)r.range(1, 6);
            for (int i = 0; i < nc; ++i) { Json t3 = Json::arr(); t3.push((long long)(r.chance(1, 4) ? 0 : r.range(1, len < 4 ? 4 : len))); t3.push((long long)(r.chance(1, 2) ? 0 : r.range(1, 3))); t3.push((long long)(r.chance(1, 2) ? 0 : r.range(1, 3))); cuts.push(t3); }
            rs["cuts"] = cuts; rs["pre"] = (long long)(r.chance(1, 2) ? 0 : r.range(1, 4));
            p["rsrc"] = rs;
        }
        if (r.chance(1, 4)) p["rsnk"] = (long long)(r.chance(1, 3) ? r.range(0, need) : need + r.range(0, 16));
        return p;
    }

    // ------------------------------------------------------------ execution + oracle
    struct Run {
        Ctx &c;
        SimSource src; SimSink snk;
        Source source; Sink sink;
        ByteBuffer *real_src_buf = nullptr;   // the byte buffer behind source_from_buffer(), when the stream lives in one
        std::vector<uint8_t> exp;   // expected sink content
        size_t opi = 0;
        std::string site;
        Run(Ctx &ctx) : c(ctx) { src.c = &ctx; snk.c = &ctx; }

        void resync() { exp = snk.got; }
        bool sink_is_exp_plus_prefix_of(const std::vector<uint8_t> &cand) {
            if (snk.got.size() < exp.size()) return false;
            if (!exp.empty() && memcmp(snk.got.data(), exp.data(), exp.size()) != 0) return false;
            size_t extra = snk.got.size() - exp.size();
            if (extra > cand.size()) return false;
            return extra == 0 || memcmp(snk.got.data() + exp.size(), cand.data(), extra) == 0;
        }
        bool sink_is_exp_plus(const std::vector<uint8_t> &cand) {
            return snk.got.size() == exp.size() + cand.size() && sink_is_exp_plus_prefix_of(cand);
        }
        std::vector<uint8_t> stream(size_t from, size_t n) {
            std::vector<uint8_t> v;
            for (size_t i = 0; i < n && from + i < src.data.size(); ++i) v.push_back(src.data[from + i]);
            return v;
        }
        static int64_t first_hard(const std::vector<int64_t> &e) { for (auto x : e) if (!is_transient(x)) return x; return 0; }
        bool legit_error(int64_t rc) { return src.saw_error(rc) || snk.saw_error(rc); }
        void fail(const std::string &rule, const char *fmt, ...) __attribute__((format(printf, 3, 4))) {
            char b[512]; va_list ap; va_start(ap, fmt); vsnprintf(b, sizeof b, fmt, ap); va_end(ap);
            c.fail(rule + "." + site, "op#%zu %s: %s", opi, site.c_str(), b);
        }
    };

    void exec(const Json &plan, Ctx &c) override {
        if (plan.has("prelude")) {   // an earlier transfer in this process broke off: the source or the sink failed in the middle of it
            const int64_t a = plan.geti("prelude");
            SimSource s0; SimSink k0; s0.c = &c; k0.c = &c; s0.octet_kind = (a & 1) != 0; k0.octet_kind = (a & 2) != 0;
            s0.data.resize(12); for (size_t i = 0; i < 12; ++i) s0.data[i] = (uint8_t)(0x90 + i);
            if (a & 4) { s0.err_pos = 5; s0.err_code = EIO; } else { k0.err_pos = 5; k0.err_code = EPIPE; }
            Source so; Sink si; s0.bind(&so); k0.bind(&si);
            unsigned char am[3]; ByteBuffer ab; ab.data = am; ab.size = 3; ab.used = 3; ab.offset = 0;
            switch ((a >> 3) % 4) { case 0: (void)sts_n_aux(&so, &si, &ab, 10); break; case 1: (void)sts_drain_cbc(&so, &si); break; case 2: (void)sts_n(&so, &si, 10); break; default: { unsigned char t[10]; (void)source_get_chunk(&so, t, 10); (void)sink_put_chunk(&si, t, 10); } }
            COUNT("probe.earlier_transfer_broke_off_before_the_scenario");
        }
        Run R(c);
        g_bind_with_macros = plan.geti("macro_init") != 0; if (g_bind_with_macros) COUNT("probe.endpoints_from_static_initialisers");
        R.src.octet_kind = plan.geti("src_octet") != 0;
        R.snk.octet_kind = plan.geti("snk_octet") != 0;
        int64_t len = plan.geti("len"); if (len < 0) len = 0; if (len > 1 << 20) len = 1 << 20;
        R.src.data.resize((size_t)len);
        for (size_t i = 0; i < (size_t)len; ++i) R.src.data[i] = stream_octet(i);
        R.src.bind(&R.source); R.snk.bind(&R.sink);
        // ---- optionally the library's own buffer endpoints carry the stream / collect the output
        std::vector<std::unique_ptr<GuardedBlock>> blocks; std::vector<ByteBuffer> bufs; ByteChunks chunks; Source inner_src; Sink inner_snk; ByteBuffer snkbuf;
        if (plan.has("rsrc")) {
            const Json &rs = plan.get("rsrc"); const bool one = rs.geti("kind") == 1;
            size_t at = 0; const size_t total = R.src.data.size();
            auto add_buf = [&](size_t take, size_t pre, size_t fre) {
                blocks.emplace_back(new GuardedBlock(pre + take + fre ? pre + take + fre : 1));
                GuardedBlock &g = *blocks.back();
                for (size_t i = 0; i < pre; ++i) g.p[i] = 0xa7;                       // consumed earlier
                if (take) memcpy(g.p + pre, R.src.data.data() + at, take);
                for (size_t i = 0; i < fre; ++i) g.p[pre + take + i] = 0x7a;          // free space behind the fill mark
                ByteBuffer b; b.data = g.p; b.size = pre + take + fre; b.used = pre + take; b.offset = pre; bufs.push_back(b);
                at += take;
            };
            if (one) { int64_t pre = rs.geti("pre"); if (pre < 0) pre = 0; if (pre > 8) pre = 8; add_buf(total, (size_t)pre, 0); }
            else {
                const Json &cj = rs.get("cuts");
                for (size_t i = 0; i < cj.size() && i < 12; ++i) {
                    int64_t take = cj.at(i).ati(0, 1), pre = cj.at(i).ati(1, 0), fre = cj.at(i).ati(2, 0);
                    if (take < 0) take = 0; if ((size_t)take > total - at) take = (int64_t)(total - at); if (pre < 0) pre = 0; if (pre > 8) pre = 8; if (fre < 0) fre = 0; if (fre > 8) fre = 8;
                    add_buf((size_t)take, (size_t)pre, (size_t)fre);
                    if (take == 0) COUNT("probe.chunk_list_with_empty_chunk");
                    if (take == 0 && pre == 0 && fre == 3) { byte_buffer_null(&bufs.back()); COUNT("probe.chunk_list_with_nulled_chunk"); }   // an empty chunk whose owner released it
                }
                if (at < total) add_buf(total - at, 0, 0);
            }
            if (one) { source_from_buffer(&inner_src, &bufs[0]); R.real_src_buf = &bufs[0]; }
            else {
                chunks.chunk = bufs.data(); chunks.chunks = bufs.size(); chunks.active = 0;
                if (g_bind_with_macros && bufs.size() == 3) { chunks = hm_byte_chunks3((ByteBuffer(*)[3])bufs.data()); COUNT("probe.chunk_list_from_BYTE_CHUNKS"); }
                source_from_chunks(&inner_src, &chunks);
            }
            R.src.inner = &inner_src;
            COUNT(one ? "probe.stream_in_library_buffer_source" : "probe.stream_in_library_chunk_source");
        }
        if (plan.has("rsnk")) {
            int64_t cap = plan.geti("rsnk"); if (cap < 0) cap = 0; if (cap > (1 << 18)) cap = 1 << 18;
            blocks.emplace_back(new GuardedBlock((size_t)cap ? (size_t)cap : 1));
            snkbuf.data = blocks.back()->p; snkbuf.size = (size_t)cap; snkbuf.used = 0; snkbuf.offset = 0;
            sink_to_buffer(&inner_snk, &snkbuf);
            R.snk.inner = &inner_snk; R.snk.inner_bb = &snkbuf;
            COUNT("probe.output_in_library_buffer_sink");
        }
        const Json &ops = plan.get("ops");
        for (size_t oi = 0; oi < ops.size(); ++oi) {
            const Json &o = ops.at(oi);
            R.opi = oi;
            R.site = o.gets("op");
            run_op(R, o);
            c.ev(EV_NOTE, oi, R.src.pos, R.snk.got.size());
            if (R.src.inner_overrun) { c.fail("realsource.overrun", "the library's buffer source handed out more than asked for / more than the stream holds"); break; }
            if (R.src.inner_failed) { c.fail("realsource.failed", "the library's buffer / chunk source returned %d although %zu octets of the stream are still in its buffers", R.src.inner_failed, R.src.data.size() - R.src.pos); break; }
        }
        if (plan.has("rsnk") && c.viol.empty() && !bytes_eq(snkbuf.data, R.snk.got.data(), R.snk.got.size() < snkbuf.size ? R.snk.got.size() : snkbuf.size)) c.fail("realsink.content", "the library's buffer sink changed octets it had stored earlier");
        if (plan.has("rsnk") && c.viol.empty()) { for (auto &b : blocks) if (b->p == snkbuf.data && !b->unchanged_outside(0, snkbuf.used <= snkbuf.size ? snkbuf.used : snkbuf.size)) c.fail("realsink.bounds", "the library's buffer sink wrote outside its filled region"); }
    }

    void run_op(Run &R, const Json &o) {
        Ctx &c = R.c;
        const std::string op = o.gets("op");
        int64_t nraw = o.geti("n", 1);
        bool invalid = nraw <= 0;
        size_t n = nraw < 0 ? (size_t)SSIZE_MAX + 1u : (size_t)nraw;
        if (n > (1u << 17) && !invalid) n = 1u << 17;
        if (n >= 65536 && !invalid && op.find("_huge") == std::string::npos) COUNT("probe.count_of_64k_octets_or_more_really_moved");
        R.src.begin_op(o.get("ss")); R.snk.begin_op(o.get("ks"));
        EpIntruder intr{&c, 0};
        R.snk.intruder = nullptr; R.src.intruder = nullptr;
        if (o.has("intrude")) { intr.arg = o.get("intrude").ati(1, 0) & 0xfffff;
            if (intr.arg & 0x80000) { R.src.intrude_at = o.get("intrude").ati(0, 0) & 15; R.src.intruder = second_plumbing_job; R.src.intruder_arg = &intr; }   // the second task runs while this one waits in its source driver
            else { R.snk.intrude_at = o.get("intrude").ati(0, 0) & 15; R.snk.intruder = second_plumbing_job; R.snk.intruder_arg = &intr; } }
        const size_t sp0 = R.src.pos;
        const size_t remaining = R.src.data.size() - sp0;
        // an auxiliary-buffer operation may move up to its region per round, whatever n says
        uint64_t aux_region = 0;
        { const Json &a = o.get("aux"); int64_t z = a.ati(0, 4), u = a.ati(1, z); if (z < 1) z = 1; if (z > 4096) z = 4096; if (u < 1) u = 1; if (u > z) u = z; aux_region = (uint64_t)u; }
        const uint64_t budget = 8 * ((invalid ? 0 : n) + aux_region + R.src.script.e.size() + R.snk.script.e.size()) + 64;
        const uint64_t drain_budget = budget + 8 * remaining;
        ssize_t rc = 0;
        bool finished = true;
        c.ops_done++;
        c.execs++;

        if (op == "n_cbc_long") {
            uint64_t N = nraw < 1 ? 1 : (uint64_t)nraw; if (N > (1ull << 33)) N = 1ull << 33;
            LongDrv D; D.c = &c; D.limit = N + 64;
            Source ls; Sink lk; octet_source_init(&ls, LongDrv::src, &D); octet_sink_init(&lk, LongDrv::snk, &D);
            finished = WITH_BUDGET(c, 2 * N + 256, rc = sts_n_cbc(&ls, &lk, (size_t)N));
            c.ev(EV_API, 11, (uint64_t)rc, D.consumed);
            if (!finished) { R.fail("noprogress", "counted per-octet transfer of %llu octets did not return (%llu moved)", (unsigned long long)N, (unsigned long long)D.consumed); return; }
            if (rc != (ssize_t)N || D.produced != N || D.consumed != N) R.fail("count", "asked to move %llu octets one by one: returned %zd, %llu taken from the source, %llu reached the sink", (unsigned long long)N, rc, (unsigned long long)D.produced, (unsigned long long)D.consumed);
            else if (!D.order_ok) R.fail("data", "octets reached the sink out of order");
            else if (N >= (1ull << 32)) COUNT("probe.per_octet_transfer_of_4gib_or_more");
            return;
        }
        if (op.size() > 5 && op.compare(op.size() - 5, 5, "_huge") == 0) {
            c.ops_done--; c.execs--;
            unsigned char *base = huge_base();
            if (!base) return;  // no address space to reserve: nothing executed
            c.ops_done++; c.execs++;
            VirtualDrv D; D.c = &c; D.base = base;
            uint64_t N = nraw < 1 ? 1 : (uint64_t)nraw; if (N > ((uint64_t)1 << 35) - 4096) N = ((uint64_t)1 << 35) - 4096;
            D.total = N;
            const Json &cj = o.get("caps");
            for (size_t i = 0; i < cj.size() && i < 16; ++i) D.caps.push_back(cj.ati(i, INT64_MAX));
            const bool put = op.compare(0, 3, "put") == 0, atmost = op.find("atmost") != std::string::npos;
            Source vs; Sink vk; chunk_source_init(&vs, VirtualDrv::source_cb, &D); chunk_sink_init(&vk, VirtualDrv::sink_cb, &D);
            finished = WITH_BUDGET(c, D.caps.size() + 16, rc = put ? (atmost ? sink_put_chunk_atmost(&vk, base, N) : sink_put_chunk(&vk, base, N))
                                                                    : (atmost ? source_get_chunk_atmost(&vs, base, N) : source_get_chunk(&vs, base, N)));
            c.ev(EV_API, 9, (uint64_t)rc, D.moved);
            if (!finished) { R.fail("noprogress", "no return within %zu driver calls after the script ended (N=%llu, %llu moved)", D.caps.size() + 16, (unsigned long long)N, (unsigned long long)D.moved); return; }
            if (D.bad_ptr) R.fail("order", "a driver call was not offered the next stretch of the caller's %llu octets (loss, duplication or reordering)", (unsigned long long)N);
            if (D.bad_n) R.fail("overrun", "a driver call was asked for nothing or for more than remains of the caller's %llu octets", (unsigned long long)N);
            int64_t hard = Run::first_hard(D.errors);
            if (!atmost) {
                if (hard) { if (rc != hard) R.fail("harderror", "driver failed with %lld but the call returned %zd", (long long)hard, rc); }
                else if (rc != (ssize_t)N || D.moved != N) R.fail("result", "asked to move %llu octets, no hard driver error, returned %zd with %llu moved", (unsigned long long)N, rc, (unsigned long long)D.moved);
                else { COUNT(D.calls == 1 ? "probe.huge_transfer_in_one_call" : "probe.huge_transfer_in_pieces"); }
            } else {
                if (rc < 0) { bool seen = false; for (auto e : D.errors) if (e == rc) seen = true; if (!seen) R.fail("errorsource", "returned %zd which no driver produced", rc); }
                else if ((uint64_t)rc != D.moved || (uint64_t)rc > N) R.fail("count", "returned %zd but %llu octets were moved (asked for at most %llu)", rc, (unsigned long long)D.moved, (unsigned long long)N);
            }
            if (D.maxpiece >= ((uint64_t)1 << 32)) COUNT("probe.huge_piece_of_4gib_or_more");
            return;
        }

        if (op == "get_chunk" || op == "get_atmost") {
            bool atmost = op == "get_atmost";
            if (atmost && invalid) { n = 1; invalid = false; }
            size_t bn = invalid ? 1 : n;
            GuardedBlock dst(bn);
            finished = WITH_BUDGET(c, budget, rc = atmost ? source_get_chunk_atmost(&R.source, dst.p, n) : source_get_chunk(&R.source, dst.p, n));
            c.ev(EV_API, 1, (uint64_t)rc, finished);
            if (!finished) { R.fail("noprogress", "no return within %llu driver calls after the script ended", (unsigned long long)budget); R.resync(); return; }
            if (invalid) {
                if (rc != -EINVAL) R.fail("einval", "N=%lld must be refused with -EINVAL, got %zd", (long long)nraw, rc);
                if (R.src.calls != 0) R.fail("einval", "driver was called %llu times for an invalid count", (unsigned long long)R.src.calls);
                COUNT("probe.invalid_count_refused");
                return;
            }
            int64_t hard = Run::first_hard(R.src.errors);
            size_t moved = R.src.pos - sp0;
            if (moved > n) R.fail("overread", "asked for %zu octets but took %zu from the stream", n, moved);
            if (!atmost) {
                if (hard) {
                    if (rc != hard) R.fail("harderror", "driver failed with %lld but the call returned %zd", (long long)hard, rc);
                    if (moved > 0) COUNT("probe.hard_error_after_prefix");
                } else {
                    if (rc != (ssize_t)n) R.fail("result", "asked for %zu octets, no hard driver error, returned %zd (driver handed out %zu)", n, rc, moved);
                    else {
                        if (moved != n) R.fail("count", "returned %zd but the driver handed out %zu octets (loss beyond the call)", rc, moved);
                        if (!bytes_eq(dst.p, R.src.data.data() + sp0, n < moved ? n : moved))
                            R.fail("data", "destination does not hold stream[%zu,%zu) in order", sp0, sp0 + n);
                        if (R.src.saw_error(-EINTR)) COUNT("probe.eintr_retried");
                        if (R.src.saw_error(-EAGAIN)) COUNT("probe.eagain_retried");
                        if (R.src.zeros) COUNT("probe.zero_return_retried");
                        if (R.src.partials) COUNT("probe.partial_then_rest");
                        if (R.src.octet_kind) COUNT("probe.octet_driver_through_chunk_api");
                    }
                }
            } else {
                if (rc < 0) { if (!R.src.saw_error(rc)) R.fail("errorsource", "returned %zd which no driver produced", rc); }
                else {
                    if ((size_t)rc > n) R.fail("atmost", "moved %zd > asked %zu", rc, n);
                    if (moved != (size_t)rc) R.fail("count", "returned %zd but the driver handed out %zu octets", rc, moved);
                    size_t k = (size_t)rc < moved ? (size_t)rc : moved; if (k > bn) k = bn;
                    if (!bytes_eq(dst.p, R.src.data.data() + sp0, k)) R.fail("data", "destination does not hold the next %zu stream octets", k);
                    if (R.src.octet_kind) COUNT("probe.octet_driver_through_chunk_api");
                }
            }
            return;
        }

        if (op == "put_chunk" || op == "put_atmost") {
            bool atmost = op == "put_atmost";
            if (atmost && invalid) { n = 1; invalid = false; }
            size_t bn = invalid ? 1 : n;
            GuardedBlock buf(bn);
            std::vector<uint8_t> pat(bn);
            for (size_t j = 0; j < bn; ++j) buf.p[j] = pat[j] = put_pattern(R.opi, j);
            buf.snap();
            finished = WITH_BUDGET(c, budget, rc = atmost ? sink_put_chunk_atmost(&R.sink, buf.p, n) : sink_put_chunk(&R.sink, buf.p, n));
            c.ev(EV_API, 2, (uint64_t)rc, finished);
            if (!finished) { R.fail("noprogress", "no return within %llu driver calls after the script ended", (unsigned long long)budget); R.resync(); return; }
            if (!buf.unchanged_outside(0, 0)) R.fail("constbuf", "caller's buffer was modified");
            if (invalid) {
                if (rc != -EINVAL) R.fail("einval", "N=%lld must be refused with -EINVAL, got %zd", (long long)nraw, rc);
                if (R.snk.calls != 0) R.fail("einval", "driver was called for an invalid count");
                COUNT("probe.invalid_count_refused");
                return;
            }
            int64_t hard = Run::first_hard(R.snk.errors);
            if (!atmost) {
                if (hard) {
                    if (rc != hard) R.fail("harderror", "driver failed with %lld but the call returned %zd", (long long)hard, rc);
                    if (!R.sink_is_exp_plus_prefix_of(pat)) R.fail("prefix", "after a failed write the sink does not hold a prefix of the data");
                    R.resync();
                } else {
                    if (rc != (ssize_t)n) { R.fail("result", "asked to write %zu octets, no hard driver error, returned %zd", n, rc); R.resync(); }
                    else if (!R.sink_is_exp_plus(pat)) { R.fail("data", "sink did not receive exactly the %zu octets in order (got %zu new)", n, R.snk.got.size() - R.exp.size()); R.resync(); }
                    else {
                        R.exp = R.snk.got;
                        if (R.snk.saw_error(-EINTR)) COUNT("probe.eintr_retried");
                        if (R.snk.saw_error(-EAGAIN)) COUNT("probe.eagain_retried");
                        if (R.snk.zeros) COUNT("probe.zero_return_retried");
                        if (R.snk.partials) COUNT("probe.partial_then_rest");
                        if (R.snk.octet_kind) COUNT("probe.octet_driver_through_chunk_api");
                    }
                }
            } else {
                if (rc < 0) {
                    if (!R.snk.saw_error(rc)) R.fail("errorsource", "returned %zd which no driver produced", rc);
                    if (!R.sink_is_exp_plus_prefix_of(pat)) R.fail("prefix", "sink does not hold a prefix of the data after an error");
                } else {
                    if ((size_t)rc > n) R.fail("atmost", "moved %zd > asked %zu", rc, n);
                    std::vector<uint8_t> want(pat.begin(), pat.begin() + (long)((size_t)rc < bn ? (size_t)rc : bn));
                    if (!R.sink_is_exp_plus(want)) R.fail("count", "returned %zd but the sink received %zu octets / wrong octets", rc, R.snk.got.size() - R.exp.size());
                }
                R.resync();
            }
            return;
        }

        if (op == "zero_to_sink" || op == "src_to_null" || op == "empty_get") {
            if (invalid) n = 1;
            if (n > 4096) n = 4096;
            COUNT("probe.trivial_endpoint");
            if (op == "empty_get") {
                GuardedBlock dst(n);
                finished = WITH_BUDGET(c, budget, rc = source_get_chunk(&source_empty, dst.p, n));
                c.ev(EV_API, 12, (uint64_t)rc, 0);
                if (!finished || rc != -ENODATA) R.fail("trivial", "reading from the empty source returned %zd, expected -ENODATA", rc);
                if (!dst.unchanged_outside(0, 0)) R.fail("trivial", "the empty source wrote to the destination");
                // the other two, through the chunk API with the whole count at once
                memset(dst.p, 0xff, n); dst.snap();
                finished = WITH_BUDGET(c, budget, rc = source_get_chunk(&source_zero, dst.p, n));
                bool allzero = true; for (size_t i = 0; i < n; ++i) if (dst.p[i] != 0) allzero = false;
                if (!finished || rc != (ssize_t)n || !allzero) R.fail("trivial", "reading %zu octets from the zero source returned %zd / not all octets are zero", n, rc);
                finished = WITH_BUDGET(c, budget, rc = sink_put_chunk(&sink_null, dst.p, n));
                if (!finished || rc != (ssize_t)n) R.fail("trivial", "writing %zu octets to the null sink returned %zd", n, rc);
                return;
            }
            if (op == "zero_to_sink") {
                finished = WITH_BUDGET(c, budget + 8 * n, rc = sts_n_cbc(&source_zero, &R.sink, n));
                c.ev(EV_API, 13, (uint64_t)rc, R.snk.got.size());
                if (!finished) { R.fail("noprogress", "no return"); R.resync(); return; }
                std::vector<uint8_t> zeros(n, 0);
                int64_t hard = Run::first_hard(R.snk.errors);
                if (rc < 0) { if (!R.snk.saw_error(rc)) R.fail("errorsource", "returned %zd which no driver produced", rc); if (!R.sink_is_exp_plus_prefix_of(zeros)) R.fail("prefix", "sink does not hold a prefix of the zero octets"); }
                else if (hard == 0 && (rc != (ssize_t)n || !R.sink_is_exp_plus(zeros))) R.fail("trivial", "asked for %zu zero octets: returned %zd, sink received %zu new octets / not all zero", n, rc, R.snk.got.size() - R.exp.size());
                R.resync();
                return;
            }
            finished = WITH_BUDGET(c, budget + 8 * n, rc = sts_n_cbc(&R.source, &sink_null, n));
            c.ev(EV_API, 14, (uint64_t)rc, R.src.pos);
            if (!finished) { R.fail("noprogress", "no return"); return; }
            if (rc < 0) { if (!R.src.saw_error(rc)) R.fail("errorsource", "returned %zd which no driver produced", rc); }
            else if (rc != (ssize_t)n || R.src.pos - sp0 != n) R.fail("trivial", "asked to discard %zu octets: returned %zd, source handed out %zu", n, rc, R.src.pos - sp0);
            return;
        }

        if (op == "get_octet") {
            unsigned char d = 0;
            size_t before = R.src.pos;
            finished = WITH_BUDGET(c, budget, rc = source_get_octet(&R.source, &d));
            c.ev(EV_API, 3, (uint64_t)rc, d);
            if (!finished) { R.fail("noprogress", "no return"); return; }
            if (R.src.calls != 1) R.fail("passthrough", "driver called %llu times", (unsigned long long)R.src.calls);
            if (R.src.pos == before + 1 && (rc < 1 || d != R.src.data[before])) R.fail("passthrough", "octet handed out but rc=%zd / wrong datum", rc);
            if (rc < 0 && !R.src.saw_error(rc)) R.fail("errorsource", "returned %zd which the driver did not produce", rc);
            if (!R.src.octet_kind) COUNT("probe.chunk_driver_through_octet_api");
            return;
        }
        if (op == "put_octet") {
            unsigned char d = put_pattern(R.opi, 0);
            finished = WITH_BUDGET(c, budget, rc = sink_put_octet(&R.sink, d));
            c.ev(EV_API, 4, (uint64_t)rc, d);
            if (!finished) { R.fail("noprogress", "no return"); return; }
            if (R.snk.calls != 1) R.fail("passthrough", "driver called %llu times", (unsigned long long)R.snk.calls);
            std::vector<uint8_t> one(1, d);
            if (!R.sink_is_exp_plus_prefix_of(one)) R.fail("passthrough", "sink content is not previous content plus at most this octet");
            if (rc < 0 && !R.snk.saw_error(rc)) R.fail("errorsource", "returned %zd which the driver did not produce", rc);
            if (!R.snk.octet_kind) COUNT("probe.chunk_driver_through_octet_api");
            R.resync();
            return;
        }

        // ---------------- source-to-sink plumbing
        const bool is_gb = op.size() > 3 && op.compare(op.size() - 3, 3, "_gb") == 0;
        bool is_aux = is_gb || (op.size() > 4 && op.compare(op.size() - 4, 4, "_aux") == 0);
        int64_t asz = 1, aus = 1, aof = 0;
        if (is_aux) {
            const Json &a = o.get("aux");
            asz = a.ati(0, 4); aus = a.ati(1, asz); aof = a.ati(2, 0);
            if (asz < 1) asz = 1; if (asz > 4096) asz = 4096;
            if (aus < 1) aus = 1; if (aus > asz) aus = asz;
            if (aof < 0) aof = 0; if (aof > aus - 1) aof = aus - 1;
        }
        GuardedBlock aux((size_t)asz);
        ByteBuffer ab; ab.data = aux.p; ab.size = (size_t)asz; ab.used = (size_t)aus; ab.offset = (size_t)aof;
        const size_t region = (size_t)(aus - aof);
        if (invalid) { n = 1; }
        // the auxiliary buffer may be the very buffer the stream is read from (an application that has no other memory to spare): the plumbing then
        // rewinds and refills the source's own buffer, which the unchanged library does correctly
        // (only where the stream outlasts the call: once its buffer is exhausted the "auxiliary buffer" would have an empty designated region, which the
        // harness never hands to the plumbing - see the assumptions)
        const bool alias = is_aux && !is_gb && R.real_src_buf && o.geti("alias") != 0 && op != "drain_aux" && remaining > n && byte_buffer_rest(R.real_src_buf) > 0;
        ByteBuffer *abp = alias ? R.real_src_buf : &ab;
        if (alias) COUNT("probe.auxiliary_buffer_is_the_sources_own_buffer");
        const uint64_t alias_extra = alias ? 8 * (uint64_t)byte_buffer_rest(R.real_src_buf) + 64 : 0;   // one pass may move everything the source's buffer holds

        enum Kind { ONE, SOME, ATMOST, EXACT, DRAIN } kind = ONE;
        if (op == "cbc") { kind = ONE; finished = WITH_BUDGET(c, budget, rc = sts_cbc(&R.source, &R.sink)); }
        else if (op == "n_cbc") { kind = EXACT; finished = WITH_BUDGET(c, budget, rc = sts_n_cbc(&R.source, &R.sink, n)); }
        else if (op == "drain_cbc") { kind = DRAIN; finished = WITH_BUDGET(c, drain_budget, rc = sts_drain_cbc(&R.source, &R.sink)); }
        else if (op == "sts_some") { kind = SOME; finished = WITH_BUDGET(c, budget, rc = sts_some(&R.source, &R.sink)); }
        else if (op == "sts_atmost") { kind = ATMOST; finished = WITH_BUDGET(c, budget, rc = sts_atmost(&R.source, &R.sink, n)); }
        else if (op == "sts_n") { kind = EXACT; finished = WITH_BUDGET(c, budget, rc = sts_n(&R.source, &R.sink, n)); }
        else if (op == "sts_drain") { kind = DRAIN; finished = WITH_BUDGET(c, drain_budget, rc = sts_drain(&R.source, &R.sink)); }
        else if (op == "some_aux") { kind = SOME; finished = WITH_BUDGET(c, budget + alias_extra, rc = sts_some_aux(&R.source, &R.sink, abp)); }
        else if (op == "atmost_aux") { kind = ATMOST; finished = WITH_BUDGET(c, budget + alias_extra, rc = sts_atmost_aux(&R.source, &R.sink, abp, n)); }
        else if (op == "n_aux") { kind = EXACT; finished = WITH_BUDGET(c, budget + 8 * n + alias_extra, rc = sts_n_aux(&R.source, &R.sink, abp, n)); }
        else if (op == "drain_aux") { kind = DRAIN; finished = WITH_BUDGET(c, drain_budget, rc = sts_drain_aux(&R.source, &R.sink, abp)); }
        else if (is_gb) {
            g_lent = &ab; R.source.ext.getbuffer = lend_buffer; COUNT("probe.source_lends_its_buffer");
            if (op == "some_gb") { kind = SOME; finished = WITH_BUDGET(c, budget, rc = sts_some(&R.source, &R.sink)); }
            else if (op == "atmost_gb") { kind = ATMOST; finished = WITH_BUDGET(c, budget, rc = sts_atmost(&R.source, &R.sink, n)); }
            else if (op == "n_gb") { kind = EXACT; finished = WITH_BUDGET(c, budget + 8 * n, rc = sts_n(&R.source, &R.sink, n)); }
            else { kind = DRAIN; finished = WITH_BUDGET(c, drain_budget, rc = sts_drain(&R.source, &R.sink)); }
            R.source.ext.getbuffer = nullptr; g_lent = nullptr;
        }
        else { c.ops_done--; c.execs--; return; }
        c.ev(EV_API, 5, (uint64_t)rc, finished);
        if (!finished) { R.fail("noprogress", "no return within the step budget after the scripts ended"); R.resync(); return; }

        const size_t moved_src = R.src.pos - sp0;
        std::vector<uint8_t> handed = R.stream(sp0, moved_src);
        if (is_aux && !alias) {
            // octets of the auxiliary block outside the designated region must be untouched;
            // n_aux/drain_aux rewind first, which moves the region to the front of the block
            size_t lo = (size_t)aof, hi = (size_t)aus;
            bool ok = true; size_t where = 0;
            for (size_t i = 0; i < aux.n; ++i) {
                bool allowed = (i >= lo && i < hi) || (!is_gb && (kind == EXACT || kind == DRAIN) && i < region);
                if (!allowed && aux.p[i] != aux.shadow[i]) { ok = false; where = i; break; }
            }
            if (!ok) R.fail("auxregion", "auxiliary octet %zu outside the designated region [%lld,%lld) was modified", where, (long long)aof, (long long)aus);
            if (region < n && kind == EXACT) COUNT("probe.aux_smaller_than_n_multiple_rounds");
        }
        if (rc < 0) {
            if (!R.legit_error(rc)) R.fail("errorsource", "returned %zd which no driver produced in this call", rc);
            if (!R.sink_is_exp_plus_prefix_of(handed)) R.fail("prefix", "after failure the sink does not hold a prefix of the stream");
            if (kind == DRAIN && rc == -ENODATA && R.src.pos == R.src.data.size() && Run::first_hard(R.snk.errors) == 0) {
                // source exhausted: everything up to the source's end must have arrived
                if (!R.sink_is_exp_plus(handed)) R.fail("drain", "source ended but the sink holds %zu of the %zu octets handed out", R.snk.got.size() - R.exp.size(), handed.size());
                else { COUNT("probe.drain_to_end_of_stream"); if (moved_src % (region ? region : 1)) COUNT("probe.drain_end_mid_chunk"); }
            }
            R.resync();
            return;
        }
        // success
        if (kind == DRAIN) { R.fail("drain", "drain returned %zd, must end with an error (end of stream)", rc); R.resync(); return; }
        size_t want = kind == EXACT ? n : (size_t)rc;
        if (kind == EXACT && rc != (ssize_t)n) R.fail("result", "asked to move %zu, returned %zd", n, rc);
        if (kind == ONE && moved_src != 1) R.fail("count", "sts_cbc succeeded (rc=%zd) but the source handed out %zu octets", rc, moved_src);
        if (kind == ONE) want = 1;
        if (kind == ATMOST && (size_t)rc > n) R.fail("atmost", "moved %zd > asked %zu", rc, n);
        if ((kind == SOME || kind == ATMOST) && is_aux && !alias && (size_t)rc > region) R.fail("atmost", "moved %zd > designated region %zu", rc, region);
        if (moved_src != want) R.fail("count", "result says %zu moved but the source handed out %zu", want, moved_src);
        if (!R.sink_is_exp_plus(handed) || handed.size() != want)
            R.fail("data", "sink did not receive exactly the %zu next stream octets (received %zu new, source handed out %zu)", want, R.snk.got.size() - R.exp.size(), moved_src);
        else {
            if (R.src.saw_error(-EINTR) || R.snk.saw_error(-EINTR)) COUNT("probe.eintr_retried");
            if (R.src.zeros || R.snk.zeros) COUNT("probe.zero_return_retried");
        }
        R.resync();
    }
};

}  // namespace

int main(int argc, char **argv) {
    EpHarness h;
    return sim_main(argc, argv, h);
}
