// Core of the deterministic simulator: PRNG, per-run context (trace
// fingerprint, violations, step budget), counters, abstract-state sets.
#pragma once
#include <csetjmp>
#include <cstdarg>
#include <cstdint>
#include <cstdio>
#include <cstring>
#include <map>
#include <set>
#include <string>
#include <vector>

#include "json.hpp"

// ---------------------------------------------------------------- PRNG
static inline uint64_t splitmix64(uint64_t &x) {
    uint64_t z = (x += 0x9e3779b97f4a7c15ULL);
    z = (z ^ (z >> 30)) * 0xbf58476d1ce4e5b9ULL;
    z = (z ^ (z >> 27)) * 0x94d049bb133111ebULL;
    return z ^ (z >> 31);
}
static inline uint64_t fnv1a(const void *p, size_t n, uint64_t h = 0xcbf29ce484222325ULL) {
    const unsigned char *c = (const unsigned char *)p;
    for (size_t i = 0; i < n; ++i) { h ^= c[i]; h *= 0x100000001b3ULL; }
    return h;
}
static inline uint64_t fnv_str(const std::string &s) { return fnv1a(s.data(), s.size()); }

struct Rng {
    uint64_t s[4];
    explicit Rng(uint64_t seed) { uint64_t x = seed; for (auto &v : s) v = splitmix64(x); }
    static uint64_t rotl(uint64_t x, int k) { return (x << k) | (x >> (64 - k)); }
    uint64_t next() {
        const uint64_t r = rotl(s[1] * 5, 7) * 9, t = s[1] << 17;
        s[2] ^= s[0]; s[3] ^= s[1]; s[1] ^= s[2]; s[0] ^= s[3]; s[2] ^= t; s[3] = rotl(s[3], 45);
        return r;
    }
    // uniform in [0, n)
    uint64_t below(uint64_t n) { return n ? next() % n : 0; }
    // uniform in [lo, hi]
    int64_t range(int64_t lo, int64_t hi) { return hi <= lo ? lo : lo + (int64_t)below((uint64_t)(hi - lo) + 1); }
    bool chance(unsigned num, unsigned den) { return below(den) < num; }
    template <class T> const T &pick(const std::vector<T> &v) { return v[below(v.size())]; }
    // small numbers most of the time, occasionally up to hi
    int64_t small(int64_t hi) {
        if (hi <= 0) return 0;
        switch (below(4)) {
        case 0: return range(0, hi < 3 ? hi : 3);
        case 1: return range(0, hi < 8 ? hi : 8);
        case 2: return range(0, hi < 32 ? hi : 32);
        default: return range(0, hi);
        }
    }
};

// per-run seed: a pure function of (VERIF_SEED, property, harness family, index)
static inline uint64_t run_seed(uint64_t seed, const std::string &prop, uint64_t idx) {
    uint64_t x = seed ^ fnv_str(prop);
    uint64_t a = splitmix64(x);
    x = a ^ (idx * 0x9e3779b97f4a7c15ULL);
    return splitmix64(x);
}

// ---------------------------------------------------------------- counters
// Counters (fault fired, probes) are process-global arrays; workers ship them
// to the driver at the end of their slice.
struct Counters {
    std::vector<std::string> names;
    std::vector<uint64_t> val;
    int id(const char *n) {
        for (size_t i = 0; i < names.size(); ++i) if (names[i] == n) return (int)i;
        names.emplace_back(n); val.push_back(0);
        return (int)names.size() - 1;
    }
};
inline Counters &counters() { static Counters c; return c; }
#define COUNT(NAME) do { static int id_ = counters().id(NAME); counters().val[(size_t)id_]++; } while (0)
#define COUNTN(NAME, N) do { static int id_ = counters().id(NAME); counters().val[(size_t)id_] += (uint64_t)(N); } while (0)
// registers a counter name so that it shows up (as zero) even if never hit
#define DECLARE_COUNTER(NAME) do { (void)counters().id(NAME); } while (0)

struct StateSets {
    std::map<std::string, std::set<uint64_t>> sets;
    void add(const char *set, uint64_t key) {
        auto &s = sets[set];
        if (s.size() < 200000) s.insert(key);
    }
};
inline StateSets &statesets() { static StateSets s; return s; }
#define STATE(SET, KEY) statesets().add(SET, (uint64_t)(KEY))

// ---------------------------------------------------------------- run context
struct Violation {
    std::string tag;   // "<prop>:<oracle>[.<site>]" - stable identity of the failing rule+site
    std::string msg;   // human readable detail
    Json pin;          // for enumerating harnesses: the single fault that failed
};

struct Ctx {
    std::string prop;
    uint64_t fp = 0xcbf29ce484222325ULL;
    uint64_t steps = 0;        // seam events = the only notion of simulated time
    uint64_t execs = 0;        // library executions inside this plan (enumerating harnesses count > 1)
    uint64_t faults_fired = 0; // faults consumed inside operations in this run
    uint64_t ops_done = 0;     // library API calls made beyond set-up
    std::vector<Violation> viol;
    bool verbose = false;
    // step budget / escape
    uint64_t budget = 0;
    bool budget_armed = false;
    jmp_buf escape;
    // shared slot for the driver: current pin text (enumerating harnesses)
    char *pin_slot = nullptr;
    size_t pin_slot_size = 0;

    void mix(uint64_t v) { fp = fnv1a(&v, sizeof v, fp); }
    void ev(uint32_t kind, uint64_t a = 0, uint64_t b = 0, uint64_t c = 0) {
        ++steps;
        mix(kind); mix(a); mix(b); mix(c);
        if (verbose) fprintf(stderr, "  ev#%llu k=%u a=%lld b=%lld c=%lld\n", (unsigned long long)steps, kind,
                             (long long)a, (long long)b, (long long)c);
    }
    void mixbytes(const void *p, size_t n) { fp = fnv1a(p, n, fp); }
    void log(const char *fmt, ...) __attribute__((format(printf, 2, 3))) {
        if (!verbose) return;
        va_list ap; va_start(ap, fmt); vfprintf(stderr, fmt, ap); va_end(ap); fputc('\n', stderr);
    }
    void fail(const std::string &tag, const char *fmt, ...) __attribute__((format(printf, 3, 4))) {
        char buf[1024];
        va_list ap; va_start(ap, fmt); vsnprintf(buf, sizeof buf, fmt, ap); va_end(ap);
        if (viol.size() < 64) viol.push_back(Violation{prop + ":" + tag, buf, Json()});
        mix(fnv_str(tag));
        if (verbose) fprintf(stderr, "  VIOL %s: %s\n", tag.c_str(), buf);
    }
    void fail_pin(const std::string &tag, const Json &pin, const char *fmt, ...) __attribute__((format(printf, 4, 5))) {
        char buf[1024];
        va_list ap; va_start(ap, fmt); vsnprintf(buf, sizeof buf, fmt, ap); va_end(ap);
        if (viol.size() < 64) viol.push_back(Violation{prop + ":" + tag, buf, pin});
        mix(fnv_str(tag));
        if (verbose) fprintf(stderr, "  VIOL %s: %s\n", tag.c_str(), buf);
    }
    void set_pin(const std::string &txt) {
        if (!pin_slot) return;
        size_t n = txt.size() < pin_slot_size - 1 ? txt.size() : pin_slot_size - 1;
        memcpy(pin_slot, txt.data(), n); pin_slot[n] = 0;
    }
    // Called by every seam. When the armed budget runs out, control leaves
    // the library by longjmp (library frames own nothing but allocator
    // blocks, which the ledger reclaims).
    void step_budget() {
        if (!budget_armed) return;
        if (budget == 0) { budget_armed = false; longjmp(escape, 1); }
        --budget;
    }
};

// Run a library call under a step budget. Returns false when the budget was
// exhausted (the call did not return).
#define WITH_BUDGET(CTX, N, STMT)                                         \
    ([&]() -> bool {                                                      \
        (CTX).budget = (N); (CTX).budget_armed = true;                    \
        if (setjmp((CTX).escape) != 0) { return false; }                  \
        STMT;                                                             \
        (CTX).budget_armed = false;                                       \
        return true;                                                      \
    }())

// ---------------------------------------------------------------- harness interface
struct Tier {
    int level = 0;             // 0 quick, 1 thorough
    bool thorough() const { return level > 0; }
};

struct Harness {
    virtual ~Harness() {}
    virtual const char *name() const = 0;
    virtual std::vector<std::string> props() const = 0;
    virtual uint64_t runs(const std::string &prop, const Tier &t) const = 0;
    virtual Json gen(const std::string &prop, Rng &r, const Tier &t, uint64_t idx) = 0;
    virtual unsigned time_limit(const Json & /*plan*/) const { return 60; }   // wall-clock seconds after which a run counts as hung
    virtual void exec(const Json &plan, Ctx &c) = 0;
    // description for the evidence file
    virtual Json describe(const std::string &prop) const = 0;
    virtual std::string level(const std::string &) const { return "exploration"; }
    // non-triviality rule evaluated by the driver from the run context
    virtual bool nontrivial(const Ctx &c) const { return c.ops_done > 0; }
    // probes this property's plan family is expected to reach (listed in the evidence even when at zero)
    virtual std::vector<std::string> probes(const std::string &) const { return {}; }
};

int sim_main(int argc, char **argv, Harness &h);

// hex helpers for plans
static inline std::string hexs(const std::vector<uint8_t> &v) {
    static const char *d = "0123456789abcdef";
    std::string s; s.reserve(v.size() * 2);
    for (uint8_t b : v) { s += d[b >> 4]; s += d[b & 15]; }
    return s;
}
static inline std::vector<uint8_t> unhex(const std::string &s) {
    std::vector<uint8_t> v;
    auto val = [](char c) -> int {
        if (c >= '0' && c <= '9') return c - '0';
        if (c >= 'a' && c <= 'f') return c - 'a' + 10;
        if (c >= 'A' && c <= 'F') return c - 'A' + 10;
        return 0;
    };
    for (size_t i = 0; i + 1 < s.size(); i += 2) v.push_back((uint8_t)(val(s[i]) * 16 + val(s[i + 1])));
    return v;
}
static inline std::string u64hex(uint64_t v) { char b[32]; snprintf(b, sizeof b, "0x%llx", (unsigned long long)v); return b; }
static inline uint64_t hexu64(const std::string &s) { return strtoull(s.c_str(), nullptr, 0); }
