// slipsim - RFC 1055 framing on a simulated serial line (property C12)
#include "driver.hpp"
#include "seams.hpp"

extern "C" {
#include <ufw/rfc1055.h>
void slipsim_static_context(RFC1055Context *out, int with_sof);   // RFC1055_CONTEXT_INIT_DEFAULT / _WITH_SOF (sim/slipmacros.c)
size_t slipsim_worst_case(size_t n, int with_sof);                // RFC1055_WORST_CLASSIC / _WITHSOF
size_t slipsim_worst_case_expr(size_t a, size_t b, int usesof);   // RFC1055_WORST_CASE(a + b, usesof ? RFC1055_WITH_SOF : RFC1055_DEFAULT)
}
static bool g_static_init = false;   // contexts come from the header's static initialisers instead of rfc1055_context_init()
static void init_context(RFC1055Context *ctx, bool sof) { if (g_static_init) slipsim_static_context(ctx, sof); else rfc1055_context_init(ctx, sof ? RFC1055_WITH_SOF : RFC1055_DEFAULT); }

namespace {

const uint8_t END = 0xc0, ESC = 0xdb, ESC_END = 0xdc, ESC_ESC = 0xdd;

typedef std::vector<uint8_t> Bytes;
static RFC1055Context g_last_ctx; static bool g_have_ctx = false;   // the link's context as the last decode call left it

// a second task scheduled at a seam point (see SimSink::maybe_intrude): another link encodes and decodes a frame of its own
struct SlipIntruder { Ctx *c; int64_t arg; };
static void second_link_job(void *a) {
    SlipIntruder &I = *(SlipIntruder *)a; Ctx &c = *I.c; const bool sof = (I.arg & 1) != 0;
    Bytes pl((size_t)((I.arg >> 1) & 7) + 1); for (size_t i = 0; i < pl.size(); ++i) { static const uint8_t A[5] = {END, ESC, ESC_END, ESC_ESC, 0x41}; pl[i] = A[(I.arg >> (4 + 2 * i)) % 5]; }
    SimSource s1; SimSink k1; s1.c = &c; k1.c = &c; s1.data = pl; s1.octet_kind = (I.arg & 0x100) != 0; k1.octet_kind = (I.arg & 0x200) != 0;
    Source so; Sink si; s1.bind(&so); k1.bind(&si);
    RFC1055Context e; init_context(&e, sof);
    int rc1 = rfc1055_encode(&e, &so, &si);
    SimSource s2; SimSink k2; s2.c = &c; k2.c = &c; s2.data = k1.got; Source so2; Sink si2; s2.bind(&so2); k2.bind(&si2);
    RFC1055Context d; init_context(&d, sof);
    int rc2 = rfc1055_decode(&d, &so2, &si2);
    COUNT("probe.second_link_worked_during_a_sink_call");
    if (rc1 < 0 || rc2 != 1 || k2.got != pl) c.fail("intruder.roundtrip", "a frame of %zu octets encoded and decoded by a second link (%s) while another link's sink call was pending came back wrong (encode %d, decode %d, %zu octets)", pl.size(), sof ? "start-of-frame" : "classic", rc1, rc2, k2.got.size());
}

// Another link lived in this process before the scenario (plan field "prelude"): its decoder met a broken escape or a line that ended inside a
// frame, its encoder a sink that failed inside an escape pair. Nothing of that may be felt by the scenario's contexts.
static void earlier_link(Ctx &c, int64_t arg) {
    const bool sof = (arg & 1) != 0;
    SimSource s; SimSink k; s.c = &c; k.c = &c; s.octet_kind = (arg & 2) != 0; k.octet_kind = (arg & 4) != 0;
    Source so; Sink si; s.bind(&so); k.bind(&si);
    RFC1055Context x; init_context(&x, sof);
    switch ((arg >> 3) % 4) {
    case 0: s.data = {END, 0x11, ESC, 0x00, 0x22}; (void)rfc1055_decode(&x, &so, &si); (void)rfc1055_decode(&x, &so, &si); break;   // ESC followed by no escape code, no END behind it
    case 1: s.data = {END, 0x11, 0x22, ESC}; (void)rfc1055_decode(&x, &so, &si); break;                                             // the line ends inside an escape pair
    case 2: s.data = {0x33, 0x44}; (void)rfc1055_decode(&x, &so, &si); (void)rfc1055_decode(&x, &so, &si); break;                   // (start-of-frame mode: octets before any delimiter)
    default: s.data = {0x01, END, ESC, 0x02}; k.err_pos = 2 + (int64_t)((arg >> 5) & 3); k.err_code = EIO; (void)rfc1055_encode(&x, &so, &si); break;   // the sink fails around an escape pair
    }
    COUNT("probe.earlier_link_failed_before_the_scenario");
}

static const Json *g_enc_intrude = nullptr;   // the plan's "intrude" pair while a plan runs: encoders' sinks are interrupted as well as decoders'

struct SlipHarness : Harness {
    const char *name() const override { return "slipsim"; }
    std::vector<std::string> props() const override { return {"C12"}; }
    std::vector<std::string> probes(const std::string &) const override {
        return {"garbage_ends_in_esc", "garbage_without_delimiter", "garbage_esc_followed_by_end", "sof_first_frame_lost", "empty_frame_sof", "empty_frame_classic",
                "sink_error_on_escaped_octet", "encoder_source_error", "encoder_sink_error", "decoder_source_error", "decoder_sink_error", "illegal_sequence_reported",
                "resynchronised_after_garbage", "concatenated_frames", "worst_case_length_reached", "source_error_between_frames_then_retry", "source_error_on_a_closing_delimiter", "encode_while_decoder_is_inside_a_frame", "context_from_static_initialiser", "second_link_worked_during_a_sink_call", "earlier_link_failed_before_the_scenario", "second_link_worked_during_a_source_call", "sink_answered_not_now_during_encode"};
    }
    uint64_t runs(const std::string &, const Tier &t) const override { return t.thorough() ? 30000000 : 2500000; }

    Json describe(const std::string &) const override {
        Json d = Json::obj();
        d["rule"] = "plans = {mode classic|sof, driver kinds, family, frames[], garbage, raw, fault}; families: roundtrip (k frames encoded by the real "
                    "encoder, concatenated, decoded), garbage (corrupted prefix + k clean frames; suffix rule), raw (arbitrary decoder input; "
                    "reference state machine in classic mode, invariants in both), errors (source/sink error injected at an octet position of "
                    "encoder or decoder). Non-trivial = at least one encode or decode call ran; distinct = distinct execution fingerprints";
        Json real = Json::arr(); real.push("src/rfc1055.c"); real.push("src/endpoints/core.c (source_get_octet, sink_put_octet, sink_put_chunk)");
        Json stubs = Json::arr(); stubs.push("scripted serial line (source driver, octet or chunk style, error at position)");
        stubs.push("recording sink driver (octet or chunk style, partial transfers, error at position)");
        d["real"] = real; d["stubs"] = stubs;
        Json as = Json::arr();
        as.push("resynchronisation is stated as a suffix property: classic mode - delivered frames end with F2..Fk (F1 may merge with the garbage tail); "
                "start-of-frame mode - delivered non-empty frames end with all non-empty Fi except possibly the first");
        as.push("after an injected driver error only 'returned unchanged' is demanded for that call and the decoder state afterwards is unconstrained - except when the source "
                "failed or ran dry (-ENODATA) exactly between two frames without handing out an octet: nothing was taken off the line, so the following frames are still concatenated, "
                "uncorrupted encodings and must be delivered when the line is read again (also behind a corrupted prefix, under the suffix rule)");
        as.push("drivers returning 0 / EINTR / EAGAIN are not generated here (rfc1055.c reads and writes octet-wise without retry; retry semantics belong to C17); partial transfers (k>=1) on chunk sinks are");
        as.push("the encoding is not required to be octet-identical to a reference encoder, only transparent, delimiter-free inside and within the 2n+1 / 2n+2 bound");
        as.push("payload / garbage space is sampled (5-symbol alphabet up to length 9 in the quick tier), not enumerated");
        d["assumptions"] = as;
        return d;
    }

    // ------------------------------------------------------------ generation
    static Bytes gen_octets(Rng &r, int maxlen, bool full_alphabet) {
        static const uint8_t A[5] = {END, ESC, ESC_END, ESC_ESC, 0x41};
        int n = (int)r.range(0, maxlen);
        Bytes b((size_t)n);
        for (auto &x : b) x = full_alphabet && !r.chance(1, 4) ? (uint8_t)r.below(256) : A[r.below(5)];
        return b;
    }
    static Bytes ref_encode(const Bytes &p, bool sof) {
        Bytes e; if (sof) e.push_back(END);
        for (uint8_t x : p) { if (x == END) { e.push_back(ESC); e.push_back(ESC_END); } else if (x == ESC) { e.push_back(ESC); e.push_back(ESC_ESC); } else e.push_back(x); }
        e.push_back(END); return e;
    }

    Json gen(const std::string &, Rng &r, const Tier &t, uint64_t) override {
        Json p = Json::obj();
        bool sof = r.chance(1, 2);
        p["sof"] = sof; if (r.chance(1, 3)) p["static_init"] = 1;
        if (r.chance(1, 5)) { Json ij = Json::arr(); ij.push((long long)r.below(12)); ij.push((long long)r.below(1 << 24)); p["intrude"] = ij; }
        if (r.chance(1, 6)) p["prelude"] = (long long)r.below(256);   // an earlier link failed before the scenario
        if (r.chance(1, 4)) { Json tj = Json::arr(); tj.push((long long)r.below(14)); tj.push((long long)r.below(2)); p["snk_transient"] = tj; }
        p["src_octet"] = r.chance(1, 2); p["snk_octet"] = r.chance(1, 2);
        int maxlen = t.thorough() ? (r.chance(1, 10) ? 1024 : (r.chance(1, 3) ? 64 : 9)) : 9;
        bool full = t.thorough() ? r.chance(1, 2) : r.chance(1, 4);
        static const std::vector<std::string> FAM = {"roundtrip", "garbage", "garbage", "raw", "errors"};
        std::string fam = r.pick(FAM);
        p["fam"] = fam;
        int k = (int)r.range(1, 4);
        Json frames = Json::arr();
        for (int i = 0; i < k; ++i) frames.push(hexs(gen_octets(r, r.chance(1, 5) ? 0 : maxlen, full)));
        p["frames"] = frames;
        if (fam == "garbage") {
            Bytes g;
            switch (r.below(4)) {
            case 0: g = gen_octets(r, t.thorough() ? 64 : 9, full); break;
            case 1: { g = gen_octets(r, 9, full); g.push_back(ESC); break; }   // ends in a lone ESC
            case 2: { g = gen_octets(r, 9, full); for (auto &x : g) if (x == END) x = 0x42; break; }  // no delimiter at all
            default: {  // a damaged frame: line fault applied to a valid encoding
                g = ref_encode(gen_octets(r, maxlen, full), sof);
                if (!g.empty()) {
                    size_t at = (size_t)r.below(g.size());
                    switch (r.below(4)) {
                    case 0: g.erase(g.begin() + (long)at); break;                      // drop octet
                    case 1: g[at] ^= (uint8_t)(1u << r.below(8)); break;               // flip bit
                    case 2: g.insert(g.begin() + (long)at, END); break;                // insert END
                    default: g.resize(at); break;                                      // truncate
                    }
                }
            }
            }
            p["garbage"] = hexs(g);
        } else if (fam == "raw") {
            p["raw"] = hexs(gen_octets(r, t.thorough() ? 64 : 12, full));
        } else if (fam == "errors") {
            Json f = Json::obj();
            f["where"] = (long long)r.below(4);  // 0 enc source, 1 enc sink, 2 dec source, 3 dec sink
            f["pos"] = (long long)r.range(0, 2 * maxlen + 3 > 24 ? 24 : 2 * maxlen + 3);
            f["code"] = HARD_ERRORS[r.below(N_HARD_ERRORS)];
            if ((f.geti("where") & 1) && r.chance(1, 5)) f["code"] = ENODATA;   // a sink may fail with the very code that means "end of data" on the source side
            if (f.geti("where") == 2 && r.chance(1, 2)) {  // the line fails or runs dry exactly between two frames, and is read again afterwards
                size_t b = 0; int upto = (int)r.below((uint64_t)k);
                for (int i = 0; i < upto; ++i) b += ref_encode(unhex(frames.at((size_t)i).s), sof).size();
                f["pos"] = (long long)b;
                if (r.chance(1, 2)) f["code"] = ENODATA;
                f["rearm"] = (long long)r.below(3);
            }
            p["fault"] = f;
        } 
        if (fam == "garbage" && r.chance(1, 4)) {  // the same between the clean frames behind a corrupted prefix (boundary index, counted from the end of the garbage)
            Json f = Json::obj();
            f["boundary"] = (long long)r.below((uint64_t)k); f["code"] = r.chance(1, 2) ? ENODATA : EIO; f["rearm"] = (long long)r.below(3);
            if (r.chance(1, 3)) f["closing"] = 1;   // not at the start of a frame but on the closing delimiter of the one before it (which the decoder may just be skipping)
            p["dry"] = f;
        }
        if (r.chance(1, 3)) {  // partial transfers on a chunk sink (>= 1 octet)
            Json s = Json::arr(); int n = (int)r.range(1, 6);
            for (int i = 0; i < n; ++i) s.push(1);
            p["snk_partial"] = s;
        }
        return p;
    }

    // ------------------------------------------------------------ helpers around the real code
    struct Enc { int rc; Bytes out; bool finished; int64_t src_err, snk_err; };
    Enc encode(Ctx &c, bool sof, bool so, bool ko, const Bytes &payload, const Json *partial, int where, int64_t pos, int code, const RFC1055Context *use = nullptr) {
        SimSource src; SimSink snk; src.c = &c; snk.c = &c;
        src.octet_kind = so; snk.octet_kind = ko;
        src.data = payload; src.begin_op(); snk.begin_op();
        if (partial) snk.script.load(*partial);
        if (where == 0) { src.err_pos = pos; src.err_code = code; }
        if (where == 1) { snk.err_pos = pos; snk.err_code = code; }
        SlipIntruder intr{&c, 0};
        if (g_enc_intrude) {   // a second link works while this encoder waits in its sink (e.g. the sink tunnels what it is handed through another SLIP link)
            intr.arg = g_enc_intrude->ati(1, 0) & 0xffffff; snk.intrude_at = (g_enc_intrude->ati(0, 0) + (int64_t)payload.size()) % (2 * (int64_t)payload.size() + 3);
            snk.intruder = second_link_job; snk.intruder_arg = &intr;
        }
        Source source; Sink sink; src.bind(&source); snk.bind(&sink);
        RFC1055Context ctx; init_context(&ctx, sof);
        if (use) ctx = *use;   // a link's context as its decoder left it (the encoder takes it as const: only the mode may matter)
        Enc e; e.rc = 0;
        e.finished = WITH_BUDGET(c, 8 * payload.size() + 64, e.rc = rfc1055_encode(&ctx, &source, &sink));
        c.ev(EV_API, 1, (uint64_t)e.rc, snk.got.size());
        c.ops_done++; c.execs++;
        e.out = snk.got;
        e.src_err = src.errors.empty() ? 0 : Run_first_non_enodata(src.errors);
        e.snk_err = snk.errors.empty() ? 0 : snk.errors[0];
        return e;
    }
    static int64_t Run_first_non_enodata(const std::vector<int64_t> &e) { for (auto x : e) if (x != -ENODATA) return x; return 0; }

    struct Dec {
        Ctx &c; SimSource src; SimSink snk; Source source; Sink sink; RFC1055Context ctx;
        SlipIntruder intr{nullptr, 0};
        void arm(const Json &plan) { if (!plan.has("intrude")) return; intr.c = &c; intr.arg = plan.get("intrude").ati(1, 0) & 0xffffff;
            if (intr.arg & 0x400) { src.intrude_at = plan.get("intrude").ati(0, 0) & 15; src.intruder = second_link_job; src.intruder_arg = &intr; COUNT("probe.second_link_worked_during_a_source_call"); }   // while the decoder waits in its source
            else { snk.intrude_at = plan.get("intrude").ati(0, 0) & 15; snk.intruder = second_link_job; snk.intruder_arg = &intr; } }
        Dec(Ctx &cc, bool sof, bool so, bool ko, const Bytes &line) : c(cc) {
            src.c = &cc; snk.c = &cc; src.octet_kind = so; snk.octet_kind = ko; src.data = line;
            src.bind(&source); snk.bind(&sink);
            init_context(&ctx, sof);
        }
        // one decode call; returns rc, fills frame with the octets put to the sink during this call
        int call(Bytes &frame, size_t &consumed, bool &finished) {
            size_t s0 = snk.got.size(), p0 = src.pos;
            src.begin_op(); // keep sink script across calls
            snk.errors.clear();
            int rc = 0;
            finished = WITH_BUDGET(c, 4 * (src.data.size() - src.pos) + 64, rc = rfc1055_decode(&ctx, &source, &sink));
            c.ev(EV_API, 2, (uint64_t)(int64_t)rc, snk.got.size() - s0);
            c.ops_done++; c.execs++;
            g_last_ctx = ctx; g_have_ctx = true;
            frame.assign(snk.got.begin() + (long)s0, snk.got.end());
            consumed = src.pos - p0;
            return rc;
        }
    };

    // One context per full-duplex link is legitimate use: the encoder must produce the same frame whatever state the link's decoder is in.
    void encode_on_used_context(Ctx &c, bool sof, bool so, bool ko, const std::vector<Bytes> &F, const std::vector<Bytes> &encs, const RFC1055Context &used) {
        if (!c.viol.empty() || F.empty() || encs.empty()) return;
        Enc e = encode(c, sof, so, ko, F[0], nullptr, -1, 0, 0, &used);
        if (!e.finished) { c.fail("noprogress.encode", "encoder did not return within the step budget"); return; }
        if (used.state != (sof ? RFC1055Context::RFC1055_SEARCH_FOR_START : RFC1055Context::RFC1055_NORMAL)) COUNT("probe.encode_while_decoder_is_inside_a_frame");
        if (e.rc < 0 || e.out != encs[0]) c.fail("form.encode_shared_context", "encoding through the link's context (decoder state %d) differs from the encoding through a fresh one (rc %d, %zu vs %zu octets)", (int)used.state, e.rc, e.out.size(), encs[0].size());
    }

    void exec(const Json &plan, Ctx &c) override {
        g_have_ctx = false; last_F.clear(); last_encs.clear();
        g_bind_with_macros = plan.geti("static_init") != 0;
        g_static_init = plan.geti("static_init") != 0; if (g_static_init) COUNT("probe.context_from_static_initialiser");
        if (plan.has("prelude")) earlier_link(c, plan.geti("prelude"));
        g_enc_intrude = plan.has("intrude") ? &plan.get("intrude") : nullptr;
        exec_inner(plan, c);
        g_enc_intrude = nullptr;
        if (g_have_ctx) encode_on_used_context(c, plan.geti("sof") != 0, plan.geti("src_octet") != 0, plan.geti("snk_octet") != 0, last_F, last_encs, g_last_ctx);
    }
    std::vector<Bytes> last_F, last_encs;

    void exec_inner(const Json &plan, Ctx &c) {
        const bool sof = plan.geti("sof") != 0, so = plan.geti("src_octet") != 0, ko = plan.geti("snk_octet") != 0;
        const std::string fam = plan.gets("fam", "roundtrip");
        std::vector<Bytes> F;
        const Json &fj = plan.get("frames");
        for (size_t i = 0; i < fj.size() && i < 16; ++i) F.push_back(unhex(fj.at(i).is_str() ? fj.at(i).s : ""));
        const Json *partial = plan.has("snk_partial") ? &plan.get("snk_partial") : nullptr;
        if (partial) { // only k >= 1 entries are meaningful here
            for (size_t i = 0; i < partial->size(); ++i) if (partial->ati(i, 1) < 1) { partial = nullptr; break; }
        }
        const Json &fault = plan.get("fault");
        int where = fam == "errors" ? (int)(fault.geti("where") & 3) : -1;
        int64_t fpos = fault.geti("pos"); if (fpos < 0) fpos = 0;
        int fcode = (int)fault.geti("code", EIO); if (fcode <= 0 || fcode == EILSEQ || (fcode == ENODATA && where == 0) || fcode == EINTR || fcode == EAGAIN) fcode = EIO;  // transient codes are retried by the endpoint layer (C17), not 'returned unchanged'; ENODATA from the encoder's source is the end of the payload; from a sink it is an error code like any other
        int64_t rearm = fault.geti("rearm"); if (rearm < 0 || rearm > 16) rearm = 0;

        // ---- encode all frames with the real encoder
        Bytes line;
        std::vector<Bytes> encs;
        // a sink that answers "not now" (-EAGAIN / -EINTR) once: the single-octet puts of the encoder pass that on to the caller, the two-octet
        // escape pairs go through the chunk API, which retries - either way a call that reports success must have produced the whole frame
        if (plan.has("snk_transient") && !F.empty()) {
            const Json &tj = plan.get("snk_transient");
            int64_t at = tj.ati(0, 0); if (at < 0) at = 0; if (at > 64) at = 64;
            const int code = tj.ati(1, 0) & 1 ? EINTR : EAGAIN;
            Json scr = Json::arr(); for (int64_t q = 0; q < at; ++q) scr.push(ko ? 1 : 2); scr.push((long long)-code);
            Enc t = encode(c, sof, so, ko, F[0], &scr, -1, 0, 0);
            if (!t.finished) { c.fail("noprogress.encode", "encoder did not return within the step budget"); return; }
            COUNT("probe.sink_answered_not_now_during_encode");
            if (t.rc >= 0) {
                Bytes want = ref_encode(F[0], sof);
                if (t.out != want) { c.fail("form.encode_after_transient", "the sink answered %d once (at call %lld); the encoder reported success but the frame on the line is not the encoding (%zu octets, %zu expected)", -code, (long long)at, t.out.size(), want.size()); return; }
            } else if (t.rc != -code) { c.fail("error.encode_sink", "sink answered %d, encoder returned %d", -code, t.rc); return; }
        }
        for (size_t i = 0; i < F.size(); ++i) {
            bool inject = (where == 0 || where == 1) && i == 0;
            Enc e = encode(c, sof, so, ko, F[i], partial, inject ? where : -1, fpos, fcode);
            if (!e.finished) { c.fail("noprogress.encode", "encoder did not return within the step budget"); return; }
            bool fired = inject && (where == 0 ? e.src_err == -fcode : e.snk_err == -fcode);
            if (fired) {
                COUNT(where == 0 ? "probe.encoder_source_error" : "probe.encoder_sink_error");
                if (e.rc != -fcode) c.fail(where == 0 ? "error.encode_source" : "error.encode_sink", "driver failed with %d, encoder returned %d", -fcode, e.rc);
                return;  // nothing further is demanded after an injected error
            }
            if (e.rc < 0) { c.fail("result.encode", "encoder returned %d without any driver error", e.rc); return; }
            // form
            const Bytes &o = e.out;
            size_t n = F[i].size();
            size_t bound = RFC1055_WORST_CASE(n, sof);
            if (slipsim_worst_case_expr(n / 2, n - n / 2, sof) != bound || RFC1055_WORST_CASE(n / 2 + (n - n / 2), sof ? RFC1055_WITH_SOF : RFC1055_DEFAULT) != 2 * n + (sof ? 2 : 1))
                c.fail("bound.macros", "RFC1055_WORST_CASE with expression arguments gives %zu for %zu octets, %s", slipsim_worst_case_expr(n / 2, n - n / 2, sof), n, sof ? "with start-of-frame" : "classic");
            if (slipsim_worst_case(n, sof) != bound) c.fail("bound.macros", "RFC1055_WORST_%s(%zu) = %zu, RFC1055_WORST_CASE gives %zu", sof ? "WITHSOF" : "CLASSIC", n, slipsim_worst_case(n, sof), bound);
            if (o.size() > bound || o.size() > 2 * n + (sof ? 2 : 1)) c.fail("bound.encode", "encoding of %zu octets is %zu long, bound %zu", n, o.size(), bound);
            size_t ends = 0; for (uint8_t x : o) if (x == END) ++ends;
            bool okform = !o.empty() && o.back() == END && (sof ? (o.size() >= 2 && o.front() == END && ends == 2) : ends == 1);
            if (!okform) c.fail("form.encode", "delimiter occurs %zu times / not only at the frame boundary (len %zu)", ends, o.size());
            if (o.size() == bound && n > 0) COUNT("probe.worst_case_length_reached");
            encs.push_back(o);
            line.insert(line.end(), o.begin(), o.end());
        }
        if (!c.viol.empty()) return;
        last_F = F; last_encs = encs;

        if (fam == "roundtrip" || fam == "errors") {
            Dec D(c, sof, so, ko, line); D.arm(plan);
            if (where == 2) { D.src.err_pos = fpos; D.src.err_code = fcode; }
            if (where == 3) { D.snk.err_pos = fpos; D.snk.err_code = fcode; }
            if (partial && fam == "roundtrip") D.snk.script.load(*partial);
            std::vector<size_t> bounds; { size_t b = 0; for (auto &e : encs) { bounds.push_back(b); b += e.size(); } }
            for (size_t i = 0; i < F.size(); ++i) {
                Bytes got; size_t consumed; bool fin;
                const bool armed = where == 2 && D.src.err_pos >= 0;
                int rc = D.call(got, consumed, fin);
                if (!fin) { c.fail("noprogress.decode", "decoder did not return within the step budget"); return; }
                if (got.size() > consumed) c.fail("expansion.decode", "decoder emitted %zu octets but consumed only %zu", got.size(), consumed);
                bool sfired = armed && D.src.err_pos < 0, kfired = where == 3 && D.snk.saw_error(-fcode);
                if (sfired || kfired) {
                    COUNT(sfired ? "probe.decoder_source_error" : "probe.decoder_sink_error");
                    if (rc != -fcode) c.fail(sfired ? "error.decode_source" : "error.decode_sink", "driver failed with %d, decoder returned %d", -fcode, rc);
                    if (kfired && consumed >= 2 && D.src.pos >= 2 && line[D.src.pos - 2] == ESC) COUNT("probe.sink_error_on_escaped_octet");
                    // A source that failed (or ran dry) exactly between two frames took nothing off the line: the frames that follow are
                    // still concatenated, uncorrupted encodings and must come out when the line is read again.
                    if (sfired && c.viol.empty() && D.src.pos == bounds[i] && consumed == 0) {
                        COUNT("probe.source_error_between_frames_then_retry");
                        if (!got.empty()) { c.fail("expansion.decode", "decoder emitted %zu octets but consumed none", got.size()); return; }
                        if (rearm > 0 && i + 1 < F.size()) { --rearm; D.src.err_pos = (int64_t)bounds[i + 1]; }
                        --i; continue;
                    }
                    return;
                }
                if (rc != 1) { c.fail("transparency.decode", "frame %zu of %zu: decode returned %d instead of end-of-frame (1)", i, F.size(), rc); return; }
                if (got != F[i]) { c.fail("transparency.decode", "frame %zu of %zu: decoded %zu octets differ from the %zu payload octets", i, F.size(), got.size(), F[i].size()); return; }
                if (F[i].empty()) COUNT(sof ? "probe.empty_frame_sof" : "probe.empty_frame_classic");
            }
            if (D.src.pos != line.size()) c.fail("concat.decode", "%zu octets of the line left after decoding all frames", line.size() - D.src.pos);
            if (F.size() > 1) COUNT("probe.concatenated_frames");
            return;
        }

        if (fam == "garbage") {
            Bytes g = unhex(plan.gets("garbage"));
            Bytes all = g; all.insert(all.end(), line.begin(), line.end());
            if (!g.empty() && g.back() == ESC) COUNT("probe.garbage_ends_in_esc");
            if (std::find(g.begin(), g.end(), END) == g.end() && !g.empty()) COUNT("probe.garbage_without_delimiter");
            for (size_t i = 0; i + 1 < g.size(); ++i) if (g[i] == ESC && g[i + 1] == END) { COUNT("probe.garbage_esc_followed_by_end"); break; }
            Dec D(c, sof, so, ko, all); D.arm(plan);
            // optionally the line fails once / runs dry exactly at the start of a clean frame and is read again
            std::vector<size_t> bounds; { size_t b = g.size(); for (auto &e : encs) { bounds.push_back(b); b += e.size(); } }
            int dcode = 0; int64_t drearm = 0; size_t dnext = 0;
            if (plan.has("dry") && !bounds.empty()) {
                const Json &dj = plan.get("dry");
                dcode = (int)dj.geti("code", ENODATA); if (dcode != ENODATA && dcode != EIO && dcode != EPIPE) dcode = ENODATA;
                drearm = dj.geti("rearm"); if (drearm < 0 || drearm > 16) drearm = 0;
                int64_t bi = dj.geti("boundary"); if (bi < 0) bi = 0; dnext = (size_t)bi % bounds.size();
                if (dj.geti("closing") != 0 && dnext > 0) { for (auto &b : bounds) if (b > 0) b -= 1; COUNT("probe.source_error_on_a_closing_delimiter"); }   // every dry point moves onto the octet before the frame start
                D.src.err_pos = (int64_t)bounds[dnext]; D.src.err_code = dcode;
            }
            std::vector<Bytes> delivered; Bytes pending;   // pending: payload octets a call had already passed on when the line failed under it
            size_t calls = 0;
            bool eilseq = false;
            for (;;) {
                if (++calls > all.size() + 24) { c.fail("noprogress.resync", "more decode calls than octets on the line"); return; }
                Bytes got; size_t consumed; bool fin;
                const bool armed = D.src.err_pos >= 0;
                int rc = D.call(got, consumed, fin);
                if (!fin) { c.fail("noprogress.decode", "decoder did not return within the step budget"); return; }
                if (got.size() > consumed) c.fail("expansion.decode", "decoder emitted %zu octets but consumed only %zu", got.size(), consumed);
                if (armed && D.src.err_pos < 0) {  // fired in this call
                    COUNT("probe.source_error_between_frames_then_retry");
                    if (rc != -dcode) { c.fail("error.decode_source", "driver failed with %d, decoder returned %d", -dcode, rc); return; }
                    if (drearm > 0 && dnext + 1 < bounds.size()) { --drearm; ++dnext; D.src.err_pos = (int64_t)bounds[dnext]; }
                    pending.insert(pending.end(), got.begin(), got.end());
                    continue;
                }
                if (rc == 1) { pending.insert(pending.end(), got.begin(), got.end()); delivered.push_back(pending); pending.clear(); }
                else if (rc == -EILSEQ) { eilseq = true; pending.clear(); }
                else if (rc == -ENODATA && D.src.pos == all.size()) break;
                else { c.fail("result.resync", "decode returned %d on a line without driver faults", rc); return; }
                if (consumed == 0) { c.fail("noprogress.resync", "decode call consumed nothing"); return; }
            }
            if (eilseq) COUNT("probe.illegal_sequence_reported");
            // suffix rule
            std::vector<Bytes> want, have;
            if (!sof) {
                for (size_t i = 1; i < F.size(); ++i) want.push_back(F[i]);
                have = delivered;
                if (g.empty()) want = F;
            } else {
                bool first = true;
                for (auto &f : F) { if (f.empty()) continue; if (first && !g.empty()) { first = false; continue; } first = false; want.push_back(f); }
                for (auto &d : delivered) if (!d.empty()) have.push_back(d);
            }
            bool ok = have.size() >= want.size();
            for (size_t i = 0; ok && i < want.size(); ++i) if (have[have.size() - want.size() + i] != want[i]) ok = false;
            if (!ok) c.fail(sof ? "resync.sof" : "resync.classic", "after %zu garbage octets %zu frames were delivered; the clean frames are not all at the end, intact and in order (want %zu)", g.size(), have.size(), want.size());
            else {
                COUNT("probe.resynchronised_after_garbage");
                if (sof && !g.empty()) {
                    size_t ne = 0; for (auto &f : F) if (!f.empty()) ++ne;
                    if (ne > want.size() && have.size() == want.size()) COUNT("probe.sof_first_frame_lost");
                }
            }
            return;
        }

        if (fam == "raw") {
            Bytes raw = unhex(plan.gets("raw"));
            Dec D(c, sof, so, ko, raw); D.arm(plan);
            // reference state machine (classic mode), written from RFC 1055 + the property text
            size_t rp = 0; bool skipping = false;
            size_t calls = 0;
            for (;;) {
                if (++calls > raw.size() + 4) { c.fail("noprogress.raw", "more decode calls than octets"); return; }
                Bytes got; size_t consumed; bool fin;
                int rc = D.call(got, consumed, fin);
                if (!fin) { c.fail("noprogress.decode", "decoder did not return within the step budget"); return; }
                if (got.size() > consumed) c.fail("expansion.decode", "decoder emitted %zu octets but consumed only %zu", got.size(), consumed);
                if (rc != 1 && rc != -EILSEQ && rc != -ENODATA) { c.fail("result.raw", "decode returned %d", rc); return; }
                if (!sof) {
                    // reference
                    int want_rc; Bytes want;
                    for (;;) {
                        if (rp >= raw.size()) { want_rc = -ENODATA; break; }
                        uint8_t x = raw[rp++];
                        if (skipping) { if (x == END) skipping = false; continue; }
                        if (x == END) { want_rc = 1; break; }
                        if (x == ESC) {
                            if (rp >= raw.size()) { want_rc = -ENODATA; break; }
                            uint8_t y = raw[rp++];
                            if (y == ESC_END) want.push_back(END);
                            else if (y == ESC_ESC) want.push_back(ESC);
                            else { want_rc = -EILSEQ; skipping = y != END; break; }
                        } else want.push_back(x);
                    }
                    if (rc != want_rc) { c.fail("reference.raw", "decode call %zu returned %d, reference %d", calls, rc, want_rc); return; }
                    if (rc == 1 && got != want) { c.fail("reference.raw", "decode call %zu delivered a frame that differs from the reference", calls); return; }
                    if (rc == -EILSEQ) COUNT("probe.illegal_sequence_reported");
                    if (D.src.pos != rp) { c.fail("reference.raw", "decoder consumed up to %zu, reference up to %zu", D.src.pos, rp); return; }
                }
                if (rc == -ENODATA) { if (D.src.pos != raw.size()) c.fail("result.raw", "-ENODATA before the end of the line"); break; }
                if (consumed == 0) { c.fail("noprogress.raw", "decode call consumed nothing"); return; }
            }
            return;
        }
    }
};

}  // namespace

int main(int argc, char **argv) {
    SlipHarness h;
    return sim_main(argc, argv, h);
}
