// functions around the public headers' static-initialiser macros (sim/hdrmacros.c, compiled as C)
#pragma once
extern "C" {
#include <ufw/allocator.h>
#include <ufw/byte-buffer.h>
#include <ufw/endpoints.h>
ByteBuffer hm_byte_buffer_init(void *d, size_t size, size_t used, size_t offset);
ByteBuffer hm_byte_buffer(void *d, size_t size);
ByteBuffer hm_byte_buffer_empty(void *d, size_t size);
ByteChunks hm_byte_chunks3(ByteBuffer (*arr)[3]);
Source hm_octet_source(ByteSource cb, void *driver);
Source hm_chunk_source(ChunkSource cb, void *driver);
Sink hm_octet_sink(ByteSink cb, void *driver);
Sink hm_chunk_sink(ChunkSink cb, void *driver);
BlockAllocator hm_generic_blockalloc(void *driver, GenericAlloc a, GenericFree f, size_t bs);
BlockAllocator hm_slab_blockalloc(void *driver, SlabAlloc a, GenericFree f, size_t bs);
BlockAllocator hm_stdhead_blockalloc(size_t bs);
}
