/* the header's static initialisers and worst-case macros (they use C designated initialisers with the enum names, so they are compiled as C) */
#include <stddef.h>
#include <ufw/rfc1055.h>

void slipsim_static_context(RFC1055Context *out, int with_sof)
{
    static const RFC1055Context classic = RFC1055_CONTEXT_INIT_DEFAULT;
    static const RFC1055Context withsof = RFC1055_CONTEXT_INIT_WITH_SOF;
    *out = with_sof ? withsof : classic;
}

size_t slipsim_worst_case(size_t n, int with_sof)
{
    return with_sof ? RFC1055_WORST_WITHSOF(n) : RFC1055_WORST_CLASSIC(n);
}

/* the same with arguments that are expressions themselves (the run-time mode selection idiom of examples/ex-rfc1055-parse-frame.c) */
size_t slipsim_worst_case_expr(size_t a, size_t b, int usesof)
{
    return RFC1055_WORST_CASE(a + b, usesof ? RFC1055_WITH_SOF : RFC1055_DEFAULT);
}
