// Minimal JSON value: enough to hold plans, replay files, evidence.
// Numbers are signed 64-bit integers only (plans never hold floating point;
// float register values travel as bit patterns, u64 as hex strings).
#pragma once
#include <cstdint>
#include <cstdio>
#include <cstdlib>
#include <cstring>
#include <map>
#include <stdexcept>
#include <string>
#include <utility>
#include <vector>

struct Json {
    enum Kind { NUL, BOOL, INT, STR, ARR, OBJ } kind = NUL;
    bool b = false;
    int64_t i = 0;
    std::string s;
    std::vector<Json> a;
    std::vector<std::pair<std::string, Json>> o;

    Json() {}
    Json(bool v) : kind(BOOL), b(v) {}
    Json(int v) : kind(INT), i(v) {}
    Json(unsigned v) : kind(INT), i(v) {}
    Json(long v) : kind(INT), i(v) {}
    Json(long long v) : kind(INT), i(v) {}
    Json(unsigned long v) : kind(INT), i((int64_t)v) {}
    Json(unsigned long long v) : kind(INT), i((int64_t)v) {}
    Json(const char *v) : kind(STR), s(v) {}
    Json(const std::string &v) : kind(STR), s(v) {}
    static Json arr() { Json j; j.kind = ARR; return j; }
    static Json obj() { Json j; j.kind = OBJ; return j; }

    bool is_null() const { return kind == NUL; }
    bool is_arr() const { return kind == ARR; }
    bool is_obj() const { return kind == OBJ; }
    bool is_int() const { return kind == INT; }
    bool is_str() const { return kind == STR; }

    // object access
    Json &operator[](const std::string &k) {
        if (kind == NUL) kind = OBJ;
        for (auto &p : o) if (p.first == k) return p.second;
        o.emplace_back(k, Json());
        return o.back().second;
    }
    const Json *find(const std::string &k) const {
        if (kind != OBJ) return nullptr;
        for (auto &p : o) if (p.first == k) return &p.second;
        return nullptr;
    }
    bool has(const std::string &k) const { return find(k) != nullptr; }
    void erase(const std::string &k) {
        for (size_t n = 0; n < o.size(); ++n)
            if (o[n].first == k) { o.erase(o.begin() + (long)n); return; }
    }
    // tolerant getters: any plan must be executable, so wrong/missing -> default
    int64_t geti(const std::string &k, int64_t d = 0) const {
        const Json *j = find(k);
        if (!j) return d;
        if (j->kind == INT) return j->i;
        if (j->kind == BOOL) return j->b;
        return d;
    }
    std::string gets(const std::string &k, const std::string &d = "") const {
        const Json *j = find(k);
        return (j && j->kind == STR) ? j->s : d;
    }
    const Json &get(const std::string &k) const {
        static const Json nul;
        const Json *j = find(k);
        return j ? *j : nul;
    }
    // array access
    void push(const Json &v) { if (kind == NUL) kind = ARR; a.push_back(v); }
    size_t size() const { return kind == ARR ? a.size() : (kind == OBJ ? o.size() : 0); }
    const Json &at(size_t n) const {
        static const Json nul;
        return (kind == ARR && n < a.size()) ? a[n] : nul;
    }
    int64_t ati(size_t n, int64_t d = 0) const {
        const Json &j = at(n);
        return j.kind == INT ? j.i : d;
    }
    int64_t asi(int64_t d = 0) const { return kind == INT ? i : (kind == BOOL ? (int64_t)b : d); }

    static void esc(std::string &out, const std::string &s) {
        out += '"';
        for (unsigned char c : s) {
            switch (c) {
            case '"': out += "\\\""; break;
            case '\\': out += "\\\\"; break;
            case '\n': out += "\\n"; break;
            case '\t': out += "\\t"; break;
            case '\r': out += "\\r"; break;
            default:
                if (c < 0x20) { char b[8]; snprintf(b, sizeof b, "\\u%04x", c); out += b; }
                else out += (char)c;
            }
        }
        out += '"';
    }
    void dump(std::string &out, int indent = -1, int lvl = 0) const {
        auto nl = [&](int l) {
            if (indent < 0) return;
            out += '\n';
            out.append((size_t)(indent * l), ' ');
        };
        switch (kind) {
        case NUL: out += "null"; break;
        case BOOL: out += b ? "true" : "false"; break;
        case INT: out += std::to_string(i); break;
        case STR: esc(out, s); break;
        case ARR: {
            out += '[';
            bool simple = true;
            for (auto &e : a) if (e.kind == ARR || e.kind == OBJ) simple = false;
            for (size_t n = 0; n < a.size(); ++n) {
                if (n) out += ',';
                if (!simple) nl(lvl + 1);
                a[n].dump(out, indent, lvl + 1);
            }
            if (!simple && !a.empty()) nl(lvl);
            out += ']';
            break;
        }
        case OBJ: {
            out += '{';
            for (size_t n = 0; n < o.size(); ++n) {
                if (n) out += ',';
                nl(lvl + 1);
                esc(out, o[n].first);
                out += ':';
                if (indent >= 0) out += ' ';
                o[n].second.dump(out, indent, lvl + 1);
            }
            if (!o.empty()) nl(lvl);
            out += '}';
            break;
        }
        }
    }
    std::string str(int indent = -1) const { std::string r; dump(r, indent); return r; }

    // ---- parser
    struct P {
        const char *p, *e;
        void ws() { while (p < e && (*p == ' ' || *p == '\n' || *p == '\t' || *p == '\r')) ++p; }
        [[noreturn]] void fail(const char *m) { throw std::runtime_error(std::string("json: ") + m); }
        Json val() {
            ws();
            if (p >= e) fail("eof");
            char c = *p;
            if (c == '{') {
                ++p; Json j = Json::obj(); ws();
                if (p < e && *p == '}') { ++p; return j; }
                for (;;) {
                    ws(); if (p >= e || *p != '"') fail("key");
                    std::string k = strv();
                    ws(); if (p >= e || *p != ':') fail("colon"); ++p;
                    j.o.emplace_back(k, val());
                    ws(); if (p < e && *p == ',') { ++p; continue; }
                    if (p < e && *p == '}') { ++p; return j; }
                    fail("obj");
                }
            }
            if (c == '[') {
                ++p; Json j = Json::arr(); ws();
                if (p < e && *p == ']') { ++p; return j; }
                for (;;) {
                    j.a.push_back(val());
                    ws(); if (p < e && *p == ',') { ++p; continue; }
                    if (p < e && *p == ']') { ++p; return j; }
                    fail("arr");
                }
            }
            if (c == '"') return Json(strv());
            if (c == 't' && e - p >= 4 && !strncmp(p, "true", 4)) { p += 4; return Json(true); }
            if (c == 'f' && e - p >= 5 && !strncmp(p, "false", 5)) { p += 5; return Json(false); }
            if (c == 'n' && e - p >= 4 && !strncmp(p, "null", 4)) { p += 4; return Json(); }
            if (c == '-' || (c >= '0' && c <= '9')) {
                char *end; long long v = strtoll(p, &end, 10);
                if (end < e && (*end == '.' || *end == 'e' || *end == 'E')) {
                    double d = strtod(p, &end); v = (long long)d;
                }
                p = end; return Json(v);
            }
            fail("value");
        }
        std::string strv() {
            std::string r; ++p;
            while (p < e && *p != '"') {
                if (*p == '\\' && p + 1 < e) {
                    ++p;
                    switch (*p) {
                    case 'n': r += '\n'; break;
                    case 't': r += '\t'; break;
                    case 'r': r += '\r'; break;
                    case 'u': {
                        if (e - p < 5) fail("u");
                        char b[5] = {p[1], p[2], p[3], p[4], 0};
                        unsigned v = (unsigned)strtoul(b, nullptr, 16);
                        if (v < 0x80) r += (char)v;
                        else if (v < 0x800) { r += (char)(0xc0 | (v >> 6)); r += (char)(0x80 | (v & 0x3f)); }
                        else { r += (char)(0xe0 | (v >> 12)); r += (char)(0x80 | ((v >> 6) & 0x3f)); r += (char)(0x80 | (v & 0x3f)); }
                        p += 4; break;
                    }
                    default: r += *p;
                    }
                    ++p;
                } else r += *p++;
            }
            if (p >= e) fail("str");
            ++p; return r;
        }
    };
    static Json parse(const std::string &txt) {
        P p{txt.data(), txt.data() + txt.size()};
        Json j = p.val();
        return j;
    }
    static bool load(const std::string &path, Json &out) {
        FILE *f = fopen(path.c_str(), "rb");
        if (!f) return false;
        std::string t; char buf[65536]; size_t n;
        while ((n = fread(buf, 1, sizeof buf, f)) > 0) t.append(buf, n);
        fclose(f);
        try { out = parse(t); } catch (...) { return false; }
        return true;
    }
    bool save(const std::string &path, int indent = 1) const {
        FILE *f = fopen(path.c_str(), "wb");
        if (!f) return false;
        std::string t = str(indent); t += '\n';
        bool ok = fwrite(t.data(), 1, t.size(), f) == t.size();
        fclose(f);
        return ok;
    }
};
