// pssim - persistent storage over a simulated medium (properties C10, C11)
#include "driver.hpp"
#include "seams.hpp"

extern "C" {
#include <ufw/crc/crc16-arc.h>
#include <ufw/persistent-storage.h>
}

namespace {

typedef std::vector<uint8_t> Bytes;
const size_t GUARD = 64;

// ---------------------------------------------------------------- reference checksums (independent of the library)
static uint16_t ref_trivial(const uint8_t *d, size_t n, uint16_t init) { uint32_t s = init; for (size_t i = 0; i < n; ++i) s = (s + d[i]) & 0xffff; return (uint16_t)s; }
static uint16_t ref_crc16arc(const uint8_t *d, size_t n, uint16_t crc) {
    for (size_t i = 0; i < n; ++i) { crc ^= d[i]; for (int b = 0; b < 8; ++b) crc = (crc & 1) ? (uint16_t)((crc >> 1) ^ 0xA001) : (uint16_t)(crc >> 1); }
    return crc;
}
static uint32_t ref_sum32(const uint8_t *d, size_t n, uint32_t h) { for (size_t i = 0; i < n; ++i) h = (h ^ d[i]) * 16777619u + 0x9e37u; return h; }
// callbacks handed to the library
static uint16_t cb_crc16(const unsigned char *d, size_t n, uint16_t init) { return ufw_crc16_arc(init, d, n); }   // real library CRC
static uint32_t cb_sum32(const unsigned char *d, size_t n, uint32_t init) { return ref_sum32(d, n, init); }       // harness 32-bit sum
// two more 32-bit algorithms whose results differ in one half only: every image has the same lower (upper) sixteen bits
static uint32_t ref_sum32_upper(const uint8_t *d, size_t n, uint32_t h) { for (size_t i = 0; i < n; ++i) h += ((uint32_t)d[i] * 31u + 7u) << 16; return h; }
static uint32_t ref_sum32_lower(const uint8_t *d, size_t n, uint32_t h) { uint32_t lo = h & 0xffffu; for (size_t i = 0; i < n; ++i) lo = (lo * 31u + d[i] + 1u) & 0xffffu; return (h & 0xffff0000u) | lo; }
static uint32_t cb_sum32_upper(const unsigned char *d, size_t n, uint32_t init) { return ref_sum32_upper(d, n, init); }
static uint32_t cb_sum32_lower(const unsigned char *d, size_t n, uint32_t init) { return ref_sum32_lower(d, n, init); }

// ---------------------------------------------------------------- simulated medium
struct Access { bool write; uint32_t addr; size_t len; size_t done; };
struct Fault { int64_t at = -1; int kind = 0; int64_t arg = 0; };  // kind: 1 fail, 2 short(arg), 3 crash_before, 4 torn(arg)
struct Medium {
    Ctx *c = nullptr;
    Bytes mem;                 // GUARD + region + GUARD
    uint32_t place = 0;        // medium address of the first region octet
    size_t region = 0;
    std::vector<Access> log;   // accesses of the current op
    uint64_t calls = 0;
    Fault fault;
    bool crashed = false, fault_fired = false;
    bool oob = false; uint32_t oob_addr = 0; size_t oob_len = 0;
    // a second task scheduled at a seam point: before the (intrude_at)-th medium call of the current op is served, another instance (own medium, own
    // configuration) does a store / validate / fetch of its own. Neither may see anything of the other.
    int64_t intrude_at = -1; void (*intruder)(Ctx *, int64_t) = nullptr; int64_t intruder_arg = 0;

    uint8_t *at(uint32_t addr, size_t n, size_t &ok_n) {
        int64_t idx = (int64_t)addr - (int64_t)place + (int64_t)GUARD;
        if ((uint32_t)(addr - place) >= region || n > region - (uint32_t)(addr - place)) { if (!oob) { oob = true; oob_addr = addr; oob_len = n; } }
        if (idx < 0 || (uint64_t)idx >= mem.size()) { ok_n = 0; return nullptr; }
        ok_n = n; if (n > mem.size() - (size_t)idx) ok_n = mem.size() - (size_t)idx;
        return mem.data() + idx;
    }
    size_t access(bool write, uint32_t addr, void *rbuf, const void *wbuf, size_t n) {
        c->step_budget();
        uint64_t k = calls++;
        if (intruder && intrude_at >= 0 && (uint64_t)intrude_at == k) { void (*f)(Ctx *, int64_t) = intruder; intruder = nullptr; f(c, intruder_arg); }
        size_t todo = n;
        bool crash_after = false;
        if (fault.at >= 0 && (uint64_t)fault.at == k) {
            fault_fired = true; c->faults_fired++;
            switch (fault.kind) {
            case 1: COUNT("fault.medium_call_fails"); log.push_back(Access{write, addr, n, 0}); c->ev(write ? EV_MEDIUM_WR : EV_MEDIUM_RD, addr, n, 0); return 0;
            case 5: COUNT("fault.medium_call_fails_with_error_sentinel"); log.push_back(Access{write, addr, n, 0}); c->ev(write ? EV_MEDIUM_WR : EV_MEDIUM_RD, addr, n, 1);
                    return fault.arg == 1 ? n + 1 : (size_t)-1;   // a driver that reports failure with (size_t)-1 (or a nonsensical count beyond what was asked): nothing was transferred
            case 2: { size_t m = (size_t)(fault.arg < 0 ? 0 : fault.arg); if (m >= n) m = n ? n - 1 : 0; todo = m; COUNT("fault.medium_short_transfer"); break; }
            case 3: COUNT("fault.crash_before_call"); crashed = true; c->ev(EV_NOTE, 3, k, 0); c->budget_armed = false; longjmp(c->escape, 2);
            case 4:
                if (!write) { COUNT("fault.crash_before_call"); crashed = true; c->budget_armed = false; longjmp(c->escape, 2); }
                todo = (size_t)(fault.arg < 0 ? 0 : fault.arg); if (todo > n) todo = n; crash_after = true;
                if (todo > 0 && todo < n) COUNT("fault.torn_write"); else COUNT("fault.crash_at_write_boundary");
                break;
            default: break;
            }
        }
        size_t okn; uint8_t *p = at(addr, todo, okn);
        if (p) { if (write) memcpy(p, wbuf, okn); else memcpy(rbuf, p, okn); }
        log.push_back(Access{write, addr, n, todo});
        c->ev(write ? EV_MEDIUM_WR : EV_MEDIUM_RD, addr, n, todo);
        if (crash_after) { crashed = true; c->budget_armed = false; longjmp(c->escape, 2); }
        return todo;
    }
};
static Medium *g_med = nullptr;
static size_t med_read(void *dst, uint32_t addr, size_t n) { return g_med->access(false, addr, dst, nullptr, n); }
static size_t med_write(uint32_t addr, const void *src, size_t n) { return g_med->access(true, addr, nullptr, src, n); }

struct Config {
    size_t N = 8; uint32_t place = 0; int ck = 0; uint32_t init = 0; int64_t aux = -1; int dirt = 0; bool noplace = false;
    std::vector<int64_t> setup;   // configuration history before the effective calls: 1 sum16(crc), 2 sum32, 3 place(elsewhere), 4 buffer(other size), 5 place(final)
    size_t cks() const { return ck >= 2 ? 4 : 2; }
    void load(const Json &j) {
        int64_t n = j.geti("size", 8); if (n < 1) n = 1; if (n > 140000) n = 140000; N = (size_t)n;
        ck = (int)(j.geti("ck") % 5); if (ck < 0) ck = 0;   // 0 trivial 16-bit, 1 CRC-16/ARC, 2 32-bit mixing sum, 3 / 4 32-bit sums that only ever change their upper / lower half
        // the region (checksum + data) has to fit below 2^32; a placement beyond that is moved down so that the region ends exactly at the top
        int64_t p = j.geti("place"); if (p < 0) p = 0; { int64_t maxp = 0x100000000ll - (int64_t)(N + cks()); if (p > maxp) p = maxp; } place = (uint32_t)p;
        init = ck == 0 ? 0 : (uint32_t)j.geti("init");
        dirt = (int)(j.geti("dirt") & 0xff); noplace = j.geti("noplace") != 0;
        aux = j.geti("aux", -1); if (aux > (int64_t)N + 8) aux = (int64_t)N + 8;
        setup.clear(); const Json &sj = j.get("setup");
        for (size_t i = 0; i < sj.size() && i < 8; ++i) { int64_t st = sj.ati(i); if (ck == 0 && (st == 1 || st == 2)) continue; /* the default trivial sum cannot be re-selected */ setup.push_back(st); }
    }
    uint32_t ref(const uint8_t *d, size_t n) const {
        switch (ck) { case 0: return ref_trivial(d, n, (uint16_t)init); case 1: return ref_crc16arc(d, n, (uint16_t)init); case 3: return ref_sum32_upper(d, n, init); case 4: return ref_sum32_lower(d, n, init); default: return ref_sum32(d, n, init); }
    }
};

struct Store {
    PersistentStorage ps;
    std::unique_ptr<GuardedBlock> aux;
    std::unique_ptr<GuardedBlock> aux_old;
    void make(const Config &cf) {
        memset(&ps, cf.dirt, sizeof ps);   // persistent_init() is given an object with arbitrary content (an automatic variable, say)
        persistent_init(&ps, cf.N, med_read, med_write);
        // ck == 0: the library's default trivial 16-bit sum (initial value 0) set up by persistent_init
        // an arbitrary configuration history first (users re-configure instances): only the last call of each kind counts
        bool placed_last = false, summed = false;
        for (int64_t st : cf.setup) {
            switch (st) {
            case 1: persistent_sum16(&ps, cb_crc16, 0x1d0f); summed = true; break;
            case 2: persistent_sum32(&ps, cb_sum32, 7u); summed = true; break;
            case 3: persistent_place(&ps, cf.place + 1000u); placed_last = false; break;
            case 4: aux_old.reset(new GuardedBlock(3)); persistent_buffer(&ps, aux_old->p, 3); break;
            case 5: persistent_place(&ps, cf.place); placed_last = true; break;
            default: break;
            }
        }
        // the effective configuration; the order of place and checksum selection varies with the history
        bool place_first = cf.setup.empty() || (cf.setup[0] & 1);
        // an instance that lives at address 0 need not be placed at all: persistent_init() put it there
        const bool never_placed = cf.noplace && cf.place == 0; if (never_placed) { placed_last = true; for (int64_t st : cf.setup) if (st == 3 || st == 5) placed_last = false; }
        if (never_placed && placed_last) COUNT("probe.instance_never_placed");
        if (place_first && !placed_last) persistent_place(&ps, cf.place);
        if (cf.ck == 1) persistent_sum16(&ps, cb_crc16, (uint16_t)cf.init);
        else if (cf.ck >= 2) persistent_sum32(&ps, cf.ck == 3 ? cb_sum32_upper : (cf.ck == 4 ? cb_sum32_lower : cb_sum32), cf.init);
        (void)summed;
        if (!place_first && !placed_last) persistent_place(&ps, cf.place);
        if (cf.aux >= 0) { aux.reset(new GuardedBlock((size_t)cf.aux)); persistent_buffer(&ps, aux->p, (size_t)cf.aux); }
        else if (aux_old) persistent_buffer(&ps, nullptr, 1);   // back to "no buffer" as after persistent_init
    }
};

// the second task (see Medium::intruder): a small instance of its own on a medium of its own
static void second_instance_job(Ctx *c, int64_t arg) {
    Medium *outer = g_med;
    Medium m2; m2.c = c; Config cf;
    cf.N = 3 + (size_t)(arg & 15); cf.ck = (int)((arg >> 4) % 5); cf.init = cf.ck ? 0x1234u + (uint32_t)arg : 0; cf.place = 64 + (uint32_t)((arg >> 8) & 63); cf.aux = ((arg >> 14) & 1) ? (int64_t)((arg >> 15) & 7) : -1;
    m2.place = cf.place; m2.region = cf.cks() + cf.N; m2.mem.assign(GUARD + m2.region + GUARD, 0x3c);
    g_med = &m2;
    Store st2; st2.make(cf);
    Bytes img(cf.N), back(cf.N, 0); for (size_t i = 0; i < cf.N; ++i) img[i] = (uint8_t)(0x51 ^ (i * 13 + (size_t)arg));
    PersistentAccess a1 = persistent_store(&st2.ps, img.data()), a2 = persistent_validate(&st2.ps), a3 = persistent_fetch(back.data(), &st2.ps);
    uint32_t stored = 0; memcpy(&stored, m2.mem.data() + GUARD, cf.cks());
    bool ok = a1 == PERSISTENT_ACCESS_SUCCESS && a2 == PERSISTENT_ACCESS_SUCCESS && a3 == PERSISTENT_ACCESS_SUCCESS && back == img && !m2.oob && stored == (cf.cks() == 2 ? (cf.ref(img.data(), cf.N) & 0xffffu) : cf.ref(img.data(), cf.N));
    g_med = outer;
    COUNT("probe.second_instance_worked_during_a_medium_call");
    if (!ok) c->fail("intruder.roundtrip", "a second instance (N=%zu ck=%d aux=%lld) that stored, validated and fetched while another instance's medium call was pending got %d/%d/%d, image %s, checksum %s", cf.N, cf.ck, (long long)cf.aux, (int)a1, (int)a2, (int)a3, back == img ? "intact" : "wrong", "see medium");
}

// An earlier instance in this process whose store broke off: the medium failed at its k-th call. The scenario's instance shares nothing with it.
static void earlier_instance_job(Ctx *c, int64_t arg) {
    Medium *outer = g_med;
    Medium m2; m2.c = c; Config cf;
    cf.N = 4 + (size_t)(arg & 7); cf.ck = (int)((arg >> 3) % 5); cf.init = cf.ck ? 0x77u + (uint32_t)arg : 0; cf.place = 32 + (uint32_t)((arg >> 6) & 31); cf.aux = ((arg >> 11) & 1) ? (int64_t)((arg >> 12) & 7) : -1;
    m2.place = cf.place; m2.region = cf.cks() + cf.N; m2.mem.assign(GUARD + m2.region + GUARD, 0x3c);
    m2.fault.at = (int64_t)((arg >> 15) & 3); m2.fault.kind = ((arg >> 17) & 1) ? 1 : 2; m2.fault.arg = 1;
    g_med = &m2;
    Store st2; st2.make(cf);
    Bytes img(cf.N, 0x6b);
    (void)persistent_store(&st2.ps, img.data()); (void)persistent_validate(&st2.ps);
    g_med = outer;
    COUNT("probe.earlier_instance_store_broke_off_before_the_scenario");
}

struct PsHarness : Harness {
    const char *name() const override { return "pssim"; }
    std::vector<std::string> props() const override { return {"C10", "C11"}; }
    std::string level(const std::string &p) const override { return p == "C11" ? "fault_enumeration" : "exploration"; }
    std::vector<std::string> probes(const std::string &p) const override {
        if (p == "C10") return {"earlier_instance_store_broke_off_before_the_scenario", "aux_size_0", "aux_size_1", "aux_size_N_minus_1", "aux_size_N", "aux_size_N_plus_1", "partial_store_ends_at_last_octet", "overflow_pair_refused", "reconfigured_checksum_width", "placed_before_checksum_selection", "operation_failed_then_session_continued", "image_of_64k_octets_or_more", "second_instance_worked_during_a_medium_call", "instance_never_placed"};
        return {"earlier_instance_store_broke_off_before_the_scenario", "crash_between_data_and_checksum_write", "tear_inside_checksum", "short_read_in_last_call", "validated_new_image_after_cut", "validated_old_image_after_cut"};
    }
    uint64_t runs(const std::string &p, const Tier &t) const override {
        if (p == "C11") return t.thorough() ? 3000000 : 500000;
        return t.thorough() ? 20000000 : 2500000;
    }
    bool nontrivial(const Ctx &c) const override { return c.ops_done > 0 && (c.prop != "C11" || c.faults_fired > 0); }

    Json describe(const std::string &p) const override {
        Json d = Json::obj();
        Json real = Json::arr(); real.push("src/persistent-storage.c"); real.push("src/crc-16-arc.c (as configured checksum, via adaptor)");
        Json stubs = Json::arr();
        stubs.push("simulated medium: byte array with guard zones, access log, region monitor, fault script (fail / short / crash-before / torn write)");
        stubs.push("harness 32-bit checksum callback; the default trivial 16-bit sum is the library's own");
        d["real"] = real; d["stubs"] = stubs;
        Json as = Json::arr();
        if (p == "C10") {
            d["rule"] = "plans = {config: data size, placement, checksum kind+initial value, auxiliary buffer none|0..N+1; ops: store, store_part(offset,len incl. "
                        "overflow pairs), fetch, fetch_part, validate, reset(fill), restart (fresh instance over the same medium), bitrot(position, xor)}; fault-free "
                        "medium; every op checked against an image + independent checksum model and the access log. Non-trivial = at least one op touched the medium; "
                        "distinct = distinct execution fingerprints (every medium access (address,length) is part of the fingerprint)";
            as.push("the checksum on the medium is compared as a native-order integer of the configured width with an independent implementation (bitwise CRC-16/ARC, byte sum, harness 32-bit sum)");
            as.push("placement is restricted to regions that fit below 2^32 (address wrap-around is not part of the property)");
            as.push("an auxiliary buffer of size 0 is passed as a non-null pointer to a zero-size block");
        } else {
            d["rule"] = "plans = {config, fault-free history, final op}; for the final op ALL crash points (before every write, every tear offset 0..len of every write) and "
                        "every position of a single failing or short medium call (every call index x {fail, short by each amount}) are enumerated; each is one library "
                        "execution on a restored medium. Non-trivial = at least one fault fired inside the final op; distinct = distinct fingerprints of whole plans";
            as.push("after a crash, validation by a fresh instance must succeed iff the independent checksum of the data on the medium equals the checksum on the medium (collisions are handled by the iff)");
            as.push("old-or-new is demanded only for crash points at write boundaries, as the property says");
            as.push("fault dimension enumerated completely per generated case; the (config, history, op) dimension is sampled");
            Json ex = Json::obj(); ex["fault_dimension_exhaustive_per_case"] = true; d["extra"] = ex;
        }
        d["assumptions"] = as;
        return d;
    }

    // ------------------------------------------------------------ generation
    Json gen_config(Rng &r, const Tier &t) {
        Json c = Json::obj();
        int64_t N = t.thorough() ? (r.chance(1, 6) ? r.range(25, 300) : r.range(1, 40)) : r.range(1, 24);
        c["size"] = (long long)N;
        c["place"] = (long long)(r.chance(1, 2) ? 0 : (r.chance(1, 4) ? (r.chance(1, 3) ? 0xffffffffll : 0xffff0000ll - r.range(0, 3) * 4096) : r.range(1, 5000)));
        c["ck"] = (long long)(r.chance(1, 5) ? 3 + r.below(2) : r.below(3));
        { static const int DIRT[] = {0, 0xff, 0xa5, 0x01, 0x80}; c["dirt"] = DIRT[r.below(5)]; } if (r.chance(1, 3)) c["noplace"] = 1;
        c["init"] = (long long)(r.chance(1, 2) ? 0 : (r.chance(1, 2) ? 0xffff : r.range(0, 0xffffffffll)));
        int64_t aux;
        switch (r.below(8)) { case 0: aux = -1; break; case 1: aux = 0; break; case 2: aux = 1; break; case 3: aux = N - 1; break; case 4: aux = N; break; case 5: aux = N + 1; break; default: aux = r.range(0, N + 1); }
        c["aux"] = (long long)aux;
        { Json st = Json::arr(); int n = r.chance(1, 2) ? 0 : (int)r.range(1, 4); for (int i = 0; i < n; ++i) st.push((long long)r.range(1, 5)); c["setup"] = st; }
        return c;
    }
    Json gen_op(Rng &r, int64_t N, bool allow_special) {
        Json o = Json::obj();
        static const std::vector<std::string> K = {"store", "store", "store_part", "store_part", "fetch", "fetch_part", "validate", "reset", "restart", "bitrot"};
        std::string k = r.pick(K);
        if (!allow_special && (k == "restart" || k == "bitrot")) k = "store";
        o["op"] = k;
        o["salt"] = (long long)r.below(1000);
        if (k == "store_part" || k == "fetch_part") {
            switch (r.below(8)) {
            case 0: o["off"] = (long long)r.range(0, N); o["len"] = (long long)(N + 1); break;           // beyond the data size
            case 1: o["off"] = (long long)-1 - r.range(0, 3); o["len"] = (long long)r.range(1, 8); break; // offset+len wraps size_t (off = SIZE_MAX - x)
            case 2: o["off"] = (long long)r.range(1, N); o["len"] = (long long)-1 - r.range(0, 3); break;  // len = SIZE_MAX - x
            case 3: { int64_t len = r.range(1, N); o["off"] = (long long)(N - len); o["len"] = (long long)len; break; }  // ends at the last octet
            case 4: {   // a pair that is in range once its upper 32 (or 16, 48) bits are dropped
                static const int SH[] = {32, 32, 32, 16, 48, 33, 62};
                int64_t off = r.range(0, N - 1), len = r.range(0, N - off); int sh = SH[r.below(7)];
                int64_t hi = (int64_t)r.range(1, 3) << sh;
                if (hi <= N) hi = (int64_t)1 << 32;
                if (r.chance(1, 2)) off += hi; else len += hi;
                o["off"] = (long long)off; o["len"] = (long long)len; break; }
            default: { int64_t off = r.range(0, N - 1); o["off"] = (long long)off; o["len"] = (long long)r.range(0, N - off); }
            }
        } else if (k == "reset") o["fill"] = (long long)r.below(256);
        else if (k == "bitrot") { o["pos"] = (long long)r.range(0, N + 3); o["xor"] = (long long)r.range(1, 255); }
        return o;
    }
    Json gen(const std::string &prop, Rng &r, const Tier &t, uint64_t) override {
        Json p = Json::obj();
        Json cf = gen_config(r, t);
        if (r.chance(1, 6)) p["prelude"] = (long long)r.below(1 << 18);   // an earlier instance whose store broke off
        if (prop == "C11" && !t.thorough() && cf.geti("size") > 24) cf["size"] = 24;
        if (prop == "C10" && r.chance(1, t.thorough() ? 400 : 1500)) {   // rarely an image of 64 KiB and more (sizes and offsets that do not fit 16 bits)
            static const int64_t BIG[] = {65535, 65536, 65537, 65540, 70000, 131073};
            int64_t bn = BIG[r.below(6)]; cf["size"] = (long long)bn;
            static const int64_t AUX[] = {256, 4096, 65535, 65536, 65537, 1000};
            cf["aux"] = (long long)(r.chance(1, 8) ? -1 : (r.chance(1, 6) ? bn : AUX[r.below(6)]));
        }
        p["config"] = cf;
        int64_t N = cf.geti("size");
        Json ops = Json::arr();
        int n = (int)r.range(prop == "C11" ? 0 : 1, prop == "C11" ? 3 : (t.thorough() ? 16 : 8));
        for (int i = 0; i < n; ++i) {
            Json o = gen_op(r, N, prop == "C10");
            const std::string k = o.gets("op");
            if (prop == "C10" && r.chance(1, 8) && k != "restart" && k != "bitrot") { Json ij = Json::arr(); ij.push((long long)r.below(8)); ij.push((long long)r.below(1 << 20)); o["intrude"] = ij; }
            if (prop == "C10" && r.chance(1, 8) && k != "restart" && k != "bitrot") { Json f = Json::arr(); f.push((long long)r.below(6)); f.push((long long)(r.chance(1, 4) ? 5 : 1 + r.below(2))); f.push((long long)r.range(1, 3)); o["fault"] = f; }
            ops.push(o);
        }
        p["ops"] = ops;
        if (prop == "C11") {
            Json f = gen_op(r, N, false);
            if (r.chance(1, 2)) f["op"] = r.chance(1, 2) ? "store" : "store_part";
            if (f.gets("op") == "store_part" || f.gets("op") == "fetch_part") { int64_t off = r.range(0, N - 1); f["off"] = (long long)off; f["len"] = (long long)r.range(1, N - off); }
            p["final"] = f;
        }
        return p;
    }

    // ------------------------------------------------------------ execution
    struct World {
        Ctx &c; Config cf; Medium med; Store st;
        Bytes img;     // model of the data image the application believes is stored (last successful state)
        World(Ctx &cc) : c(cc) {}
        void setup(const Json &plan) {
            cf.load(plan.get("config"));
            if (cf.N >= 65536) COUNT("probe.image_of_64k_octets_or_more");
            med.c = &c; med.place = cf.place; med.region = cf.cks() + cf.N;
            med.mem.assign(GUARD + med.region + GUARD, 0);
            for (size_t i = 0; i < med.mem.size(); ++i) med.mem[i] = (uint8_t)(0x3c ^ (i * 29));
            g_med = &med;
            st.make(cf);
            img.assign(med.mem.begin() + (long)(GUARD + cf.cks()), med.mem.begin() + (long)(GUARD + cf.cks() + cf.N));
        }
        uint8_t *mdata() { return med.mem.data() + GUARD + cf.cks(); }
        uint32_t mcksum() { if (cf.cks() == 2) { uint16_t v; memcpy(&v, med.mem.data() + GUARD, 2); return v; } uint32_t v; memcpy(&v, med.mem.data() + GUARD, 4); return v; }
        bool guards_intact(Bytes &ref) { return bytes_eq(med.mem.data(), ref.data(), GUARD) && bytes_eq(med.mem.data() + GUARD + med.region, ref.data() + GUARD + med.region, GUARD); }
        uint64_t budget() const { return 6 * (cf.N + cf.cks()) + 64; }
    };
    static Bytes op_data(const Json &o, size_t n) {
        Bytes d(n); uint64_t s = (uint64_t)o.geti("salt");
        // special images now and then: all zero / all ones (checksums 0x0000 and other degenerate values), else a salted pattern
        if (s % 16 == 0) return Bytes(n, 0x00);
        if (s % 16 == 1) return Bytes(n, 0xff);
        for (size_t i = 0; i < n; ++i) d[i] = (uint8_t)(stream_octet(s * 131 + i) ^ 0x77);
        return d;
    }
    static const char *acc_name(PersistentAccess a) {
        switch (a) { case PERSISTENT_ACCESS_SUCCESS: return "SUCCESS"; case PERSISTENT_ACCESS_INVALID_DATA: return "INVALID_DATA"; case PERSISTENT_ACCESS_IO_ERROR: return "IO_ERROR"; case PERSISTENT_ACCESS_ADDRESS_OUT_OF_RANGE: return "ADDRESS_OUT_OF_RANGE"; }
        return "?";
    }

    // run one op against the library; returns false if control left the library by crash / budget
    struct OpResult { bool returned = true; bool crashed = false; PersistentAccess rc = PERSISTENT_ACCESS_SUCCESS; Bytes fetched; size_t off = 0, len = 0; bool refused_range = false; };
    OpResult call_op(World &W, const Json &o) {
        OpResult R; Ctx &c = W.c;
        const std::string op = o.gets("op");
        W.med.log.clear(); W.med.calls = 0; W.med.crashed = false; W.med.fault_fired = false; W.med.oob = false;
        W.med.intruder = nullptr;
        if (o.has("intrude") && c.prop == "C10") { const Json &ij = o.get("intrude"); W.med.intrude_at = ij.ati(0, 0); if (W.med.intrude_at < 0 || W.med.intrude_at > 4096) W.med.intrude_at = 0; W.med.intruder_arg = ij.ati(1, 0) & 0xfffff; W.med.intruder = second_instance_job; }
        const size_t N = W.cf.N;
        int64_t off = o.geti("off"), len = o.geti("len");
        size_t soff = (size_t)off, slen = (size_t)len;   // negative values wrap to SIZE_MAX - x on purpose
        R.off = soff; R.len = slen;
        bool inrange = soff <= N && slen <= N - soff;
        R.refused_range = !inrange;
        PersistentAccess rc = PERSISTENT_ACCESS_SUCCESS;
        volatile bool ret = true;
        if (op == "store") { Bytes d = op_data(o, N); ret = WITH_BUDGET(c, W.budget(), rc = persistent_store(&W.st.ps, d.data())); }
        else if (op == "store_part") { Bytes d = op_data(o, inrange ? slen : 1); GuardedBlock g(d.size()); if (!d.empty()) memcpy(g.p, d.data(), d.size()); ret = WITH_BUDGET(c, W.budget(), rc = persistent_store_part(&W.st.ps, g.p, soff, slen)); }
        else if (op == "fetch") { GuardedBlock g(N); ret = WITH_BUDGET(c, W.budget(), rc = persistent_fetch(g.p, &W.st.ps)); R.fetched.assign(g.p, g.p + N); }
        else if (op == "fetch_part") { GuardedBlock g(inrange && slen ? slen : 1); ret = WITH_BUDGET(c, W.budget(), rc = persistent_fetch_part(g.p, &W.st.ps, soff, slen)); R.fetched.assign(g.p, g.p + (inrange ? slen : 0)); if (!inrange && !g.unchanged_outside(0, 0)) c.fail("range.fetch_part", "refused fetch wrote to the destination"); }
        else if (op == "validate") { ret = WITH_BUDGET(c, W.budget(), rc = persistent_validate(&W.st.ps)); }
        else if (op == "reset") { ret = WITH_BUDGET(c, W.budget(), rc = persistent_reset(&W.st.ps, (unsigned char)o.geti("fill"))); }
        R.returned = ret; R.crashed = W.med.crashed; R.rc = rc;
        c.ev(EV_API, (uint32_t)op.size(), (uint64_t)rc, (uint64_t)ret);
        c.execs++;
        if (W.st.aux && !R.crashed && R.returned) {
            // the auxiliary buffer is exact-size under ASan; nothing else to check here
        }
        return R;
    }

    void exec(const Json &plan, Ctx &c) override {
        if (plan.has("prelude")) earlier_instance_job(&c, plan.geti("prelude"));
        if (c.prop == "C11") exec_c11(plan, c); else exec_c10(plan, c);
    }

    // ---- C10: fault-free round-trip / region / chunking / bit rot
    void exec_c10(const Json &plan, Ctx &c) {
        World W(c); W.setup(plan);
        const Config &cf = W.cf;
        Bytes pristine = W.med.mem;
        { bool s16 = false, s32 = false; for (auto st : cf.setup) { if (st == 1) s16 = true; if (st == 2) s32 = true; } if ((s32 && cf.ck == 1) || (s16 && cf.ck >= 2)) COUNT("probe.reconfigured_checksum_width"); if (cf.setup.empty() || (cf.setup[0] & 1)) COUNT("probe.placed_before_checksum_selection"); }
        if (cf.aux == 0) COUNT("probe.aux_size_0"); else if (cf.aux == 1) COUNT("probe.aux_size_1");
        else if (cf.aux == (int64_t)cf.N - 1) COUNT("probe.aux_size_N_minus_1"); else if (cf.aux == (int64_t)cf.N) COUNT("probe.aux_size_N"); else if (cf.aux == (int64_t)cf.N + 1) COUNT("probe.aux_size_N_plus_1");
        const Json &ops = plan.get("ops");
        bool stored_valid = false;   // medium believed to hold a validated image
        for (size_t oi = 0; oi < ops.size(); ++oi) {
            const Json &o = ops.at(oi);
            const std::string op = o.gets("op");
            auto F = [&](const std::string &rule, const char *fmt, ...) __attribute__((format(printf, 3, 4))) {
                char b[512]; va_list ap; va_start(ap, fmt); vsnprintf(b, sizeof b, fmt, ap); va_end(ap);
                c.fail(rule + "." + op, "op#%zu %s (N=%zu ck=%d aux=%lld place=%u): %s", oi, op.c_str(), cf.N, cf.ck, (long long)cf.aux, cf.place, b);
            };
            if (op == "restart") { W.st = Store(); W.st.make(cf); c.ev(EV_NOTE, 1, 0, 0); continue; }
            if (op == "bitrot") {
                int64_t pos = o.geti("pos"); if (pos < 0) pos = 0; pos %= (int64_t)W.med.region;
                int x = (int)(o.geti("xor") & 0xff); if (!x) x = 1;
                W.med.mem[GUARD + (size_t)pos] ^= (uint8_t)x;
                c.ev(EV_NOTE, 2, (uint64_t)pos, (uint64_t)x); c.faults_fired++; COUNT("fault.bit_rot");
                if ((size_t)pos >= cf.cks()) W.img[(size_t)pos - cf.cks()] ^= (uint8_t)x;
                Json v = Json::obj(); v["op"] = "validate";
                OpResult R = call_op(W, v); c.ops_done++;
                if (!R.returned) { F("noprogress", "validate did not return within the step budget"); return; }
                bool match = cf.ref(W.mdata(), cf.N) == W.mcksum();
                PersistentAccess want = match ? PERSISTENT_ACCESS_SUCCESS : PERSISTENT_ACCESS_INVALID_DATA;
                if (R.rc != want) F("bitrot", "after altering octet %lld validate returned %s, the independent checksum says %s", (long long)pos, acc_name(R.rc), acc_name(want));
                if (match && stored_valid) COUNT("probe.checksum_collision_after_bitrot");
                if (!match) stored_valid = false;
                if (!c.viol.empty()) return;
                continue;
            }
            Bytes before = W.med.mem;
            if (o.has("fault")) {
                // history with a failed call in it: one medium call of this operation fails or transfers short. The outcome of
                // the failed operation itself is C11's subject; here the session simply goes on (retry, other operations) and
                // everything after it is judged as usual, starting from whatever the failed call left on the medium.
                const Json &fj = o.get("fault");
                W.med.fault.at = fj.ati(0, 0); W.med.fault.kind = fj.ati(1, 1) == 2 ? 2 : (fj.ati(1, 1) == 5 ? 5 : 1); W.med.fault.arg = fj.ati(2, 1);
                OpResult RF = call_op(W, o);
                bool fired = W.med.fault_fired;
                W.med.fault = Fault();
                if (!RF.returned) { F("noprogress", "no return within the step budget under a single I/O fault"); return; }
                if (fired) {
                    COUNT("probe.operation_failed_then_session_continued");
                    if (W.med.oob) F("region", "medium access (addr %u, len %zu) outside the instance's region", W.med.oob_addr, W.med.oob_len);
                    W.img.assign(W.mdata(), W.mdata() + cf.N); stored_valid = false;
                    if (!c.viol.empty()) return;
                    continue;
                }
                W.med.mem = before;   // the fault position does not exist in this operation: judge it as an ordinary one below
            }
            OpResult R = call_op(W, o); c.ops_done++;
            if (!R.returned) { F("noprogress", "no return within %llu medium calls", (unsigned long long)W.budget()); return; }
            // region monitor
            if (W.med.oob) F("region", "medium access (addr %u, len %zu) outside the instance's region [%u,+%zu)", W.med.oob_addr, W.med.oob_len, cf.place, W.med.region);
            if (!W.guards_intact(pristine)) F("region", "octets outside the region changed");
            { uint64_t h = 1469598103934665603ULL; for (auto &a : W.med.log) { h = (h ^ a.len) * 1099511628211ULL; h = (h ^ (a.write ? 2 : 1)) * 1099511628211ULL; } STATE("ps.chunk_patterns", h); }
            if (op == "store" || op == "store_part") {
                bool part = op == "store_part";
                if (part && R.refused_range) {
                    if (R.rc != PERSISTENT_ACCESS_ADDRESS_OUT_OF_RANGE) F("range", "offset %zu + length %zu beyond %zu: returned %s", R.off, R.len, cf.N, acc_name(R.rc));
                    if (!W.med.log.empty()) F("range", "medium touched %zu times by a refused part access", W.med.log.size());
                    if (W.med.mem != before) F("range", "medium changed by a refused part access");
                    if (R.off + R.len < R.off) COUNT("probe.overflow_pair_refused");
                    if (!c.viol.empty()) return;
                    continue;
                }
                if (R.rc != PERSISTENT_ACCESS_SUCCESS) { F("result", "returned %s on a fault-free medium", acc_name(R.rc)); return; }
                Bytes d = op_data(o, part ? R.len : cf.N);
                if (part) { if (R.len) memcpy(W.img.data() + R.off, d.data(), R.len); if (R.len && R.off + R.len == cf.N) COUNT("probe.partial_store_ends_at_last_octet"); }
                else W.img = d;
                if (!bytes_eq(W.mdata(), W.img.data(), cf.N)) { F("image", "data on the medium differs from the stored image"); return; }
                uint32_t want = cf.ref(W.img.data(), cf.N);
                if (W.mcksum() != want) { F("checksum", "checksum on the medium is 0x%x, the configured algorithm over the data image gives 0x%x", W.mcksum(), want); return; }
                stored_valid = true;
                // after a successful store: validation succeeds and fetch returns the image
                Json v = Json::obj(); v["op"] = "validate";
                OpResult V = call_op(W, v);
                if (!V.returned) { F("noprogress", "validate after store did not return"); return; }
                if (W.med.oob) F("region", "validate accessed (addr %u, len %zu) outside the region", W.med.oob_addr, W.med.oob_len);
                if (V.rc != PERSISTENT_ACCESS_SUCCESS) { F("roundtrip", "validate after a successful store returned %s", acc_name(V.rc)); return; }
                Json f = Json::obj(); f["op"] = "fetch";
                OpResult G = call_op(W, f);
                if (!G.returned || G.rc != PERSISTENT_ACCESS_SUCCESS || G.fetched != W.img) { F("roundtrip", "fetch after a successful store returned %s / a different image", acc_name(G.rc)); return; }
            } else if (op == "fetch" || op == "fetch_part") {
                bool part = op == "fetch_part";
                if (part && R.refused_range) {
                    if (R.rc != PERSISTENT_ACCESS_ADDRESS_OUT_OF_RANGE) F("range", "offset %zu + length %zu beyond %zu: returned %s", R.off, R.len, cf.N, acc_name(R.rc));
                    if (!W.med.log.empty()) F("range", "medium touched by a refused part access");
                    if (R.off + R.len < R.off) COUNT("probe.overflow_pair_refused");
                } else {
                    if (R.rc != PERSISTENT_ACCESS_SUCCESS) F("result", "returned %s on a fault-free medium", acc_name(R.rc));
                    size_t off = part ? R.off : 0, len = part ? R.len : cf.N;
                    if (!bytes_eq(R.fetched.data(), W.img.data() + off, len)) F("image", "fetched octets differ from the medium image");
                }
                if (W.med.mem != before) F("readonly", "a fetch modified the medium");
            } else if (op == "validate") {
                bool match = cf.ref(W.mdata(), cf.N) == W.mcksum();
                PersistentAccess want = match ? PERSISTENT_ACCESS_SUCCESS : PERSISTENT_ACCESS_INVALID_DATA;
                if (R.rc != want) F("validate", "returned %s, the independent checksum says %s", acc_name(R.rc), acc_name(want));
                if (W.med.mem != before) F("readonly", "validate modified the medium");
            } else if (op == "reset") {
                uint8_t f = (uint8_t)o.geti("fill");
                if (R.rc != PERSISTENT_ACCESS_SUCCESS) F("result", "returned %s on a fault-free medium", acc_name(R.rc));
                for (size_t i = 0; i < W.med.region; ++i) if (W.med.mem[GUARD + i] != f) { F("reset", "octet %zu of the region is 0x%02x after reset(0x%02x)", i, W.med.mem[GUARD + i], f); break; }
                std::fill(W.img.begin(), W.img.end(), f);
                stored_valid = false;
            }
            if (!c.viol.empty()) return;
        }
    }

    // ---- C11: enumerate all crash points and single I/O faults of the final op
    void exec_c11(const Json &plan, Ctx &c) {
        // phase 0: history + final op, fault-free, to learn the final op's medium calls and the pre/post images
        World W(c); W.setup(plan);
        const Config cf = W.cf;
        const Json &ops = plan.get("ops");
        for (size_t oi = 0; oi < ops.size(); ++oi) {
            const Json &o = ops.at(oi);
            if (o.gets("op") == "restart" || o.gets("op") == "bitrot") continue;
            OpResult R = call_op(W, o);
            if (!R.returned) return;   // a hang without faults is C10's finding, not C11's
        }
        const Json &fin = plan.get("final");
        const std::string fop = fin.gets("op");
        if (fop.empty()) return;
        const Bytes medium_before = W.med.mem;
        Bytes pre_img(W.mdata(), W.mdata() + cf.N);
        OpResult base = call_op(W, fin);
        if (!base.returned) return;
        const std::vector<Access> calls = W.med.log;
        Bytes post_img(W.mdata(), W.mdata() + cf.N);
        const bool base_ok = base.rc == PERSISTENT_ACCESS_SUCCESS || base.rc == PERSISTENT_ACCESS_INVALID_DATA;
        c.ops_done++;

        // enumerate faults
        std::vector<Fault> faults;
        const Json &only = plan.get("only");
        if (!only.is_null()) { Fault f; f.at = only.geti("at"); f.kind = (int)only.geti("kind"); f.arg = only.geti("arg"); faults.push_back(f); }
        else {
            for (size_t k = 0; k < calls.size(); ++k) {
                const Access &a = calls[k];
                { Fault f; f.at = (int64_t)k; f.kind = 1; faults.push_back(f); }
                { Fault f; f.at = (int64_t)k; f.kind = 5; f.arg = (int64_t)(k & 1); faults.push_back(f); }
                for (size_t m = 1; m < a.len; ++m) { Fault f; f.at = (int64_t)k; f.kind = 2; f.arg = (int64_t)m; faults.push_back(f); }
                if (a.write) for (size_t t = 0; t <= a.len; ++t) { Fault f; f.at = (int64_t)k; f.kind = 4; f.arg = (int64_t)t; faults.push_back(f); }
                else { Fault f; f.at = (int64_t)k; f.kind = 3; faults.push_back(f); }
            }
        }
        for (const Fault &f : faults) {
            Json pin = Json::obj(); pin["at"] = (long long)f.at; pin["kind"] = f.kind; pin["arg"] = (long long)f.arg;
            c.set_pin(pin.str());
            auto F = [&](const std::string &rule, const char *fmt, ...) __attribute__((format(printf, 3, 4))) {
                char b[512]; va_list ap; va_start(ap, fmt); vsnprintf(b, sizeof b, fmt, ap); va_end(ap);
                c.fail_pin(rule + "." + fop, pin, "%s (N=%zu ck=%d aux=%lld) fault{call %lld kind %d arg %lld}: %s", fop.c_str(), cf.N, cf.ck, (long long)cf.aux, (long long)f.at, f.kind, (long long)f.arg, b);
            };
            // restore the world as it was before the final op
            W.med.mem = medium_before;
            W.st = Store(); W.st.make(cf);
            W.med.fault = f;
            OpResult R = call_op(W, fin);
            W.med.fault = Fault();
            if (!R.returned && !R.crashed) { F("noprogress", "no return within the step budget under a single I/O fault"); continue; }
            if (!W.med.fault_fired) continue;   // the call index does not exist on this path
            if (f.kind == 1 || f.kind == 2 || f.kind == 5) {
                if (R.rc != PERSISTENT_ACCESS_IO_ERROR) F("ioerror", "a %s medium call was reported as %s instead of IO_ERROR", f.kind == 1 ? "failing" : (f.kind == 5 ? "failing (error sentinel / count beyond the request)" : "short"), acc_name(R.rc));
                if (f.kind == 2 && (size_t)f.at + 1 == calls.size() && !calls[(size_t)f.at].write) COUNT("probe.short_read_in_last_call");
                continue;
            }
            // crash: only the medium survives; a fresh instance validates
            W.st = Store(); W.st.make(cf);
            Json v = Json::obj(); v["op"] = "validate";
            OpResult V = call_op(W, v);
            if (!V.returned) { F("noprogress", "validate after the crash did not return"); continue; }
            bool match = cf.ref(W.mdata(), cf.N) == W.mcksum();
            if (V.rc == PERSISTENT_ACCESS_SUCCESS && !match) F("crash.validates_mixed", "after the cut, validation succeeds although the checksum on the medium does not match the data on the medium");
            if (V.rc != PERSISTENT_ACCESS_SUCCESS && match) F("crash.rejects_consistent", "after the cut, validation fails (%s) although checksum and data on the medium match", acc_name(V.rc));
            const Access &a = calls[(size_t)f.at < calls.size() ? (size_t)f.at : 0];
            bool boundary = f.kind == 3 || f.arg == 0 || (size_t)f.arg >= a.len;
            if (f.kind == 4 && !boundary && a.addr == cf.place) COUNT("probe.tear_inside_checksum");
            if (boundary && f.kind == 4 && a.write && a.addr == cf.place && (fop == "store" || fop == "store_part")) COUNT("probe.crash_between_data_and_checksum_write");
            if (boundary && V.rc == PERSISTENT_ACCESS_SUCCESS && (fop == "store" || fop == "store_part") && base_ok) {
                Json g = Json::obj(); g["op"] = "fetch";
                OpResult G = call_op(W, g);
                if (!G.returned || G.rc != PERSISTENT_ACCESS_SUCCESS) F("crash.fetch", "fetch after a validated restart failed");
                else if (G.fetched != pre_img && G.fetched != post_img) F("crash.old_or_new", "image validated after a cut at a write boundary is neither the previous nor the new image");
                else COUNT(G.fetched == post_img ? "probe.validated_new_image_after_cut" : "probe.validated_old_image_after_cut");
            }
        }
        c.set_pin("");
    }
};

}  // namespace

int main(int argc, char **argv) {
    PsHarness h;
    return sim_main(argc, argv, h);
}
