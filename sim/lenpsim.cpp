// lenpsim - length-prefix framing over fragmenting sources and faulty sinks (property C13)
#include "driver.hpp"
#include "seams.hpp"

extern "C" {
#include <ufw/length-prefix.h>
}

namespace {

typedef std::vector<uint8_t> Bytes;

const std::vector<std::string> ENC_EPS = {"mem_enc", "buf_enc", "buf_enc_n", "chunks_use", "mem_sink", "buf_sink", "buf_sink_n", "chunks_sink"};
const std::vector<std::string> DEC_EPS = {"mem_from", "buf_from", "to_sink", "stream"};

static uint64_t kind_max(int k) {
    switch (k) { case 1: return 255; case 2: case 4: return 65535; case 3: case 5: return 0xffffffffull; default: return (uint64_t)SSIZE_MAX; }
}
// reference prefix encoder, written from the header comment / protobuf varint definition
static Bytes ref_prefix(int k, uint64_t n) {
    Bytes p;
    switch (k) {
    case 0: do { uint8_t b = n & 0x7f; n >>= 7; if (n) b |= 0x80; p.push_back(b); } while (n); break;
    case 1: p.push_back((uint8_t)n); break;
    case 2: p.push_back((uint8_t)n); p.push_back((uint8_t)(n >> 8)); break;
    case 3: for (int i = 0; i < 4; ++i) p.push_back((uint8_t)(n >> (8 * i))); break;
    case 4: p.push_back((uint8_t)(n >> 8)); p.push_back((uint8_t)n); break;
    default: for (int i = 3; i >= 0; --i) p.push_back((uint8_t)(n >> (8 * i))); break;
    }
    return p;
}
static uint8_t pay(size_t opi, size_t j) { return (uint8_t)(0xc3 ^ stream_octet(opi * 1543u + j * 7u + 5u)); }

struct LenpHarness : Harness {
    const char *name() const override { return "lenpsim"; }
    std::vector<std::string> props() const override { return {"C13"}; }
    std::vector<std::string> probes(const std::string &) const override {
        return {"varint_prefix_1", "varint_prefix_2", "varint_prefix_3plus", "buffer_with_offset_and_free_space", "chunk_list_with_empty_chunk", "chunk_list_active_nonzero",
                "frame_split_inside_prefix", "destination_one_octet_too_small", "over_maximum_refused", "total_beyond_ssize_max_refused", "second_task_framed_during_a_sink_call", "earlier_framing_job_failed_before_the_scenario", "second_task_decoded_during_a_source_call", "varint_through_header_wrapper", "source_lends_its_window", "prefix_declares_more_than_any_destination", "unmaterialised_length_accepted", "unmaterialised_length_through_buffer", "unmaterialised_length_through_buffer_n", "unmaterialised_length_through_chunks", "kind_maximum_accepted", "sink_error_mid_frame", "buffer_n_less_than_rest",
                "n_beyond_unread_refused", "fragmented_decode", "append_behind_existing_content", "multi_frame_stream_fragmented", "source_interruption_during_decode"};
    }
    uint64_t runs(const std::string &, const Tier &t) const override { return t.thorough() ? 10000000 : 1200000; }

    Json describe(const std::string &) const override {
        Json d = Json::obj();
        d["rule"] = "plans = ops[]; an op is one of the 8 encoder entry points or 3 decoder entry points (plus multi-frame streams) with prefix kind, "
                    "payload length, buffer state (size,used,offset), chunk list with active index, destination capacity, source fragmentation script "
                    "and sink behaviour script / error position. Non-trivial = at least one library call reached a driver or produced a prefix object; "
                    "distinct = distinct execution fingerprints";
        Json real = Json::arr();
        for (const char *s : {"src/length-prefix.c", "src/variable-length-integer.c", "src/endpoints/core.c", "src/endpoints/buffer.c", "src/byte-buffer.c"}) real.push(s);
        Json stubs = Json::arr();
        stubs.push("fragmenting source driver (chunk style returning 1..k per call per script, or octet style)");
        stubs.push("recording sink driver with behaviour script and error position");
        d["real"] = real; d["stubs"] = stubs;
        Json as = Json::arr();
        as.push("payload lengths above 65536 are exercised on the refusal path only (a 4 GiB payload cannot be materialised); length 0 is not generated (the property starts at 1)");
        as.push("source scripts contain short reads (k >= 1) and, for the fixed-width kinds only, the retry conditions 0 / -EINTR / -EAGAIN; the varint prefix is read with source_get_octet, which is pass-through (C17)");
        as.push("after an injected sink error only 'error returned, sink holds a prefix of the expected frame' is demanded");
        as.push("on -ENOMEM (destination too small) nothing is demanded about the source position");
        d["assumptions"] = as;
        return d;
    }

    static Json triple(int64_t a, int64_t b, int64_t c) { Json j = Json::arr(); j.push((long long)a); j.push((long long)b); j.push((long long)c); return j; }
    static Json gen_buf(Rng &r, int64_t rest, int64_t maxextra) {
        int64_t off = r.chance(1, 3) ? 0 : r.range(0, maxextra);
        int64_t free = r.chance(1, 3) ? 0 : r.range(0, maxextra);
        return triple(off + rest + free, off + rest, off);
    }

    Json gen(const std::string &, Rng &r, const Tier &t, uint64_t) override {
        Json p = Json::obj();
        Json ops = Json::arr();
        int nops = (int)r.range(1, 3);
        for (int i = 0; i < nops; ++i) {
            Json o = Json::obj();
            bool enc = r.chance(1, 2);
            std::string ep = enc ? r.pick(ENC_EPS) : r.pick(DEC_EPS);
            int k = (int)r.below(6);
            o["ep"] = ep; o["kind"] = k; if (k == 0 && r.chance(1, 2)) o["wrap"] = 1;
            int64_t len;
            switch (r.below(8)) {
            case 0: len = r.range(1, 3); break;
            case 1: len = r.range(126, 130); break;            // varint 1/2 octet boundary
            case 2: len = r.range(253, 258); break;            // octet-kind maximum +-
            case 3: len = r.chance(1, t.thorough() ? 4 : 8) ? r.range(16382, 16386) : r.range(1, t.thorough() ? 1100 : 300); break;
            case 4: len = t.thorough() && r.chance(1, 6) ? r.range(65534, 65537) : r.range(1, 40); break;
            default: len = r.range(1, 24);
            }
            
            o["len"] = (long long)len;
            if (enc && r.chance(1, 10)) {   // lengths that cannot be materialised: the kinds' maxima and their neighbours, accepted and refused
                o["huge"] = (long long)r.below(24);
                if (r.chance(1, 2)) { o["hvia"] = (long long)r.range(1, 3); o["hoff"] = (long long)r.below(8); o["hextra"] = (long long)r.below(4); }   // through a buffer, the first n octets of one, a chunk list
                static const int64_t CAPS[] = {INT64_MAX, INT64_MAX, 1ll << 31, (1ll << 31) - 1, 1ll << 32, 1ll << 30, 1, 3, 0, -EINTR, -EAGAIN};
                Json caps = Json::arr(); int nc = (int)r.below(6); for (int q = 0; q < nc; ++q) caps.push((long long)CAPS[r.below(11)]);
                o["hcaps"] = caps;
            }
            o["buf"] = gen_buf(r, len, 9);
            o["n"] = (long long)(r.chance(1, 4) ? len : r.range(1, len));
            if (r.chance(1, 10)) o["n"] = (long long)(len + 1);              // n beyond the unread content
            // chunk list whose unread parts sum to len; empty chunks in between; active index > 0 with consumed chunks before
            {
                Json ch = Json::arr();
                int pre = (int)r.below(3);
                for (int q = 0; q < pre; ++q) ch.push(gen_buf(r, r.range(0, 5), 3));
                int64_t rest = len; int parts = (int)r.range(1, 4);
                for (int q = 0; q < parts; ++q) {
                    int64_t take = q == parts - 1 ? rest : r.range(0, rest);
                    if (r.chance(1, 4)) { ch.push(gen_buf(r, 0, 3)); }
                    ch.push(gen_buf(r, take, 4)); rest -= take;
                }
                o["chunks"] = ch; o["active"] = pre;
            }
            // destination capacity around the length
            o["cap"] = (long long)(r.chance(1, 2) ? len + r.range(0, 4) : (r.chance(1, 2) ? len - 1 : r.range(0, len)));
            o["dbuf"] = triple(0, r.range(0, 6), 0);  // destination buffer: [unused, used-before, unused]; size = used + cap
            // stream of several frames
            { Json fr = Json::arr(); int nf = (int)r.range(2, 4); for (int q = 0; q < nf; ++q) fr.push((long long)r.range(1, r.chance(1, 4) ? 300 : 12)); o["frames"] = fr; }
            if (!enc && r.chance(1, 3)) o["gbwin"] = (long long)(r.chance(2, 3) ? r.range(1, 9) : r.range(10, 300));   // decoding into a sink from a source that implements the getbuffer extension
            if (!enc && r.chance(1, 12)) o["hdecl"] = (long long)r.below(12);   // a prefix that declares far more than any destination holds
            o["src_octet"] = r.chance(1, 3); o["snk_octet"] = r.chance(1, 3);
            { Json s = Json::arr(); int n = r.chance(1, 3) ? 0 : (int)r.range(1, 10); for (int q = 0; q < n; ++q) { switch (r.below(8)) { case 0: s.push(0); break; case 1: s.push(-EINTR); break; case 2: s.push(-EAGAIN); break; default: s.push((long long)r.range(1, 4)); } } o["frag"] = s; }
            { Json s = Json::arr(); int n = r.chance(1, 2) ? 0 : (int)r.range(1, 8);
              for (int q = 0; q < n; ++q) { switch (r.below(6)) { case 0: s.push(0); break; case 1: s.push(-EINTR); break; case 2: s.push(-EAGAIN); break; default: s.push((long long)r.range(1, 5)); } }
              o["ks"] = s; }
            if (r.chance(1, 8)) { Json e = Json::arr(); e.push((long long)r.range(0, len + 4)); { size_t hi = (size_t)r.below(N_HARD_ERRORS + 2); e.push(hi < N_HARD_ERRORS ? HARD_ERRORS[hi] : ENODATA); } o["kerr"] = e; }
            if (!enc && r.chance(1, 5)) { Json ij = Json::arr(); ij.push((long long)r.below(12)); ij.push((long long)r.below(6)); ij.push((long long)r.below(128)); o["dintrude"] = ij; }
            if (enc && r.chance(1, 5)) { Json ij = Json::arr(); ij.push((long long)r.below(4)); ij.push((long long)r.below(4)); ij.push((long long)r.below(6)); ij.push((long long)r.range(1, 40)); o["intrude"] = ij; }
            ops.push(o);
        }
        p["ops"] = ops; if (r.chance(1, 3)) p["macro_init"] = 1;
        if (r.chance(1, 6)) p["prelude"] = (long long)r.below(64);
        return p;
    }

    struct Buf {   // a ByteBuffer on an exact-size guarded block with known content
        std::unique_ptr<GuardedBlock> blk; ByteBuffer b;
        void make(int64_t size, int64_t used, int64_t off, size_t opi, size_t salt) {
            if (size < 1) size = 1; if (size > 1 << 17) size = 1 << 17;
            if (used < 0) used = 0; if (used > size) used = size;
            if (off < 0) off = 0; if (off > used) off = used;
            blk.reset(new GuardedBlock((size_t)size));
            for (size_t j = 0; j < (size_t)size; ++j) blk->p[j] = pay(opi + salt * 31, j);
            blk->snap();
            b.data = blk->p; b.size = (size_t)size; b.used = (size_t)used; b.offset = (size_t)off;
        }
        Bytes unread() const { return Bytes(b.data + b.offset, b.data + b.used); }
    };

    void exec(const Json &plan, Ctx &c) override {
        g_bind_with_macros = plan.geti("macro_init") != 0;
        if (plan.has("prelude")) {   // an earlier framing job in this process failed: a stream that ended inside the prefix / inside the payload, a sink that failed behind the prefix
            const int64_t a = plan.geti("prelude"); const int kk = (int)((a >> 2) % 6);
            SimSource s0; SimSink k0; s0.c = &c; k0.c = &c; Source so; Sink si; s0.bind(&so); k0.bind(&si);
            unsigned char dst[16]; unsigned char pay8[8] = {1, 2, 3, 4, 5, 6, 7, 8};
            switch (a & 3) {
            case 0: s0.data = ref_prefix(kk, 9); s0.data.resize(s0.data.size() - (s0.data.size() > 1 ? 1 : 0)); (void)flenp_memory_from_source((LengthPrefixKind)kk, &so, dst, sizeof dst); break;
            case 1: s0.data = ref_prefix(kk, 9); s0.data.push_back(0x41); (void)flenp_memory_from_source((LengthPrefixKind)kk, &so, dst, sizeof dst); break;
            case 2: s0.data = ref_prefix(kk, 9); s0.data.push_back(0x41); s0.data.push_back(0x42); (void)flenp_decode_source_to_sink((LengthPrefixKind)kk, &so, &si); break;
            default: k0.err_pos = (int64_t)ref_prefix(kk, 8).size() + 3; k0.err_code = EIO; (void)flenp_memory_to_sink((LengthPrefixKind)kk, &si, pay8, 8); break;
            }
            COUNT("probe.earlier_framing_job_failed_before_the_scenario");
        }
        const Json &ops = plan.get("ops");
        for (size_t oi = 0; oi < ops.size() && oi < 8; ++oi) {
            run_op(c, ops.at(oi), oi);
            if (!c.viol.empty()) break;
        }
    }

// the varint kind is also reachable through the lenp_*() wrappers of the header: half of the varint operations go through them
#define LENP(fn, ...) (use_wrapper ? lenp_##fn(__VA_ARGS__) : flenp_##fn(K, __VA_ARGS__))
    void run_op(Ctx &c, const Json &o, size_t oi) {
        const std::string ep = o.gets("ep");
        int k = (int)(o.geti("kind") % 6); if (k < 0) k = 0;
        const LengthPrefixKind K = (LengthPrefixKind)k;
        const bool use_wrapper = k == 0 && o.geti("wrap") != 0;
        if (use_wrapper) COUNT("probe.varint_through_header_wrapper");
        int64_t len = o.geti("len", 1); if (len < 1) len = 1; if (len > 70000) len = 70000;
        SimSink snk; snk.c = &c; snk.octet_kind = o.geti("snk_octet") != 0;
        snk.begin_op(o.get("ks"));
        if (o.has("kerr")) { snk.err_pos = o.get("kerr").ati(0, 0); snk.err_code = (int)o.get("kerr").ati(1, EIO); if (snk.err_code <= 0 || snk.err_code == EINTR || snk.err_code == EAGAIN) snk.err_code = EIO; if (snk.err_pos < 0) snk.err_pos = 0; }
        Sink sink; snk.bind(&sink);
        // optionally a second task frames something of its own while this op's sink driver is being called (cooperative interleaving at the seam)
        struct Intruder { Ctx *c; int ep, kind; size_t len, oi; bool ran = false; } intr{&c, 0, 0, 0, oi};
        if (o.has("intrude")) {
            const Json &ij = o.get("intrude");
            snk.intrude_at = ij.ati(0, 0); if (snk.intrude_at < 0 || snk.intrude_at > 64) snk.intrude_at = 0;
            intr.ep = (int)(ij.ati(1, 0) & 3); intr.kind = (int)(ij.ati(2, 0) % 6); if (intr.kind < 0) intr.kind = 0; intr.len = (size_t)(ij.ati(3, 1) < 1 ? 1 : (ij.ati(3, 1) > 200 ? 200 : ij.ati(3, 1)));
            snk.intruder_arg = &intr;
            snk.intruder = [](void *a) {
                Intruder &I = *(Intruder *)a; Ctx &cc = *I.c; I.ran = true; COUNT("probe.second_task_framed_during_a_sink_call");
                SimSink k2; k2.c = &cc; Sink s2; k2.bind(&s2);
                const LengthPrefixKind K2 = (LengthPrefixKind)I.kind;
                size_t L = I.len; if ((uint64_t)L > kind_max(I.kind)) L = (size_t)kind_max(I.kind);
                Bytes pl(L); for (size_t j = 0; j < L; ++j) pl[j] = pay(I.oi * 13 + 99, j);
                Bytes store = pl; ssize_t rc;
                if (I.ep == 0) rc = flenp_memory_to_sink(K2, &s2, store.data(), L);
                else if (I.ep == 1) { ByteBuffer b; b.data = store.data(); b.size = L; b.used = L; b.offset = 0; rc = flenp_buffer_to_sink(K2, &s2, &b); }
                else if (I.ep == 2) { ByteBuffer b; b.data = store.data(); b.size = L; b.used = L; b.offset = 0; rc = flenp_buffer_to_sink_n(K2, &s2, &b, L); }
                else { size_t h = L / 2; ByteBuffer bb[2]; bb[0].data = store.data(); bb[0].size = h; bb[0].used = h; bb[0].offset = 0; bb[1].data = store.data() + h; bb[1].size = L - h; bb[1].used = L - h; bb[1].offset = 0;
                       ByteChunks bc; bc.chunk = bb; bc.chunks = 2; bc.active = 0; rc = flenp_chunks_to_sink(K2, &s2, &bc); }
                Bytes want = ref_prefix(I.kind, L); want.insert(want.end(), pl.begin(), pl.end());
                if (rc != (ssize_t)want.size() || k2.got != want) cc.fail("intruder.frame", "a frame of %zu octets (kind %d, entry point %d) encoded while another encoder's sink call was in progress came out wrong (rc %zd, %zu octets)", L, I.kind, I.ep, rc, k2.got.size());
            };
        }
        auto F = [&](const std::string &rule, const char *fmt, ...) __attribute__((format(printf, 3, 4))) {
            char b[512]; va_list ap; va_start(ap, fmt); vsnprintf(b, sizeof b, fmt, ap); va_end(ap);
            c.fail(rule + "." + ep, "op#%zu %s kind=%d: %s", oi, ep.c_str(), k, b);
        };
        // common check for the *_to_sink forms
        auto check_sink = [&](ssize_t rc, bool finished, const Bytes &designated, uint64_t declared_len) {
            if (!finished) { F("noprogress", "no return within the step budget"); return; }
            Bytes want = ref_prefix(k, declared_len);
            size_t plen = want.size();
            want.insert(want.end(), designated.begin(), designated.end());
            int64_t hard = 0; for (auto e : snk.errors) if (!is_transient(e)) { hard = e; break; }
            if (declared_len > kind_max(k)) {
                if (rc != -EINVAL) F("refuse", "length %llu exceeds the kind's maximum, returned %zd", (unsigned long long)declared_len, rc);
                if (!snk.got.empty()) F("refuse", "%zu octets emitted although the length was refused", snk.got.size());
                COUNT("probe.over_maximum_refused");
                return;
            }
            if (hard) {
                COUNT("probe.sink_error_mid_frame");
                if (rc != hard) F("sinkerror", "sink failed with %lld, returned %zd", (long long)hard, rc);
                if (snk.got.size() > want.size() || !bytes_eq(snk.got.data(), want.data(), snk.got.size())) F("prefix", "after a sink error the sink does not hold a prefix of the frame");
                return;
            }
            if (rc != (ssize_t)want.size()) { F("total", "returned %zd, expected prefix %zu + payload %zu", rc, plen, designated.size()); }
            if (snk.got != want) {
                size_t d = 0; while (d < snk.got.size() && d < want.size() && snk.got[d] == want[d]) ++d;
                F("octets", "sink holds %zu octets, expected %zu (prefix %zu + designated %zu); first difference at %zu", snk.got.size(), want.size(), plen, designated.size(), d);
            } else {
                if (k == 0) { if (plen == 1) COUNT("probe.varint_prefix_1"); else if (plen == 2) COUNT("probe.varint_prefix_2"); else COUNT("probe.varint_prefix_3plus"); }
            }
        };
        auto check_prefix_obj = [&](int rc, const ByteBuffer &prefix, const unsigned char *prefix_mem, uint64_t declared_len) -> bool {
            if (declared_len > kind_max(k)) {
                if (rc != -EINVAL) F("refuse", "length %llu exceeds the kind's maximum, returned %d", (unsigned long long)declared_len, rc);
                COUNT("probe.over_maximum_refused");
                return false;
            }
            if (rc != 0) { F("result", "returned %d", rc); return false; }
            Bytes want = ref_prefix(k, declared_len);
            if (prefix.data != prefix_mem || prefix.used - prefix.offset != want.size() || prefix.used > VARINT_64BIT_MAX_OCTETS ||
                !bytes_eq(prefix.data + prefix.offset, want.data(), want.size())) {
                F("prefixobj", "prefix object does not designate the %zu-octet encoding of %llu", want.size(), (unsigned long long)declared_len);
                return false;
            }
            return true;
        };
        const uint64_t budget = 8 * ((uint64_t)len + snk.script.e.size()) + 256;
        c.ops_done++; c.execs++;

        // -------------------------------------------------- encoders
        if (ep == "mem_enc" || ep == "mem_sink") {
            uint64_t n = (uint64_t)len;
            Buf m; m.make(len, len, 0, oi, 1);
            void *ptr = m.b.data;
            if (o.has("huge")) {   // declared length cannot be materialised, payload memory must not be touched
                static const uint64_t HUGE_[24] = {0x100000000ull, (uint64_t)SSIZE_MAX + 1ull, 0x100000001ull, 0xffffffffull, 0xfffffffeull, 0x80000000ull, 0x7fffffffull, 0x80000001ull,
                                                   65535, 65536, 65537, 0x10000000ull /* varint 4/5 */, 0xfffffffull, 0x200000000ull, 0x7ffffffffull, 0x7ffffff80ull,
                                                   (uint64_t)SSIZE_MAX, 1ull << 56, (1ull << 56) - 1, 1ull << 49,
                                                   (uint64_t)SSIZE_MAX - 8, (uint64_t)SSIZE_MAX - 9, (uint64_t)SSIZE_MAX - 10, (uint64_t)SSIZE_MAX - 1};   // prefix + payload just over / just within SSIZE_MAX
                int64_t hi = o.geti("huge"); if (hi < 0) hi = 0;
                n = HUGE_[hi % 24];
                if (n <= kind_max(k) && n <= (uint64_t)SSIZE_MAX) {
                    // accepted: the frame is real, only its payload is never looked at
                    COUNT("probe.unmaterialised_length_accepted");
                    if (n == kind_max(k)) COUNT("probe.kind_maximum_accepted");
                    // the entry point the length goes through: the memory form, or a buffer / the first n octets of a buffer / a chunk list
                    // designating the same (virtual) octets
                    const int hvia = (int)(((o.geti("hvia") % 4) + 4) % 4);
                    const size_t hoff = hvia ? (size_t)(o.geti("hoff") & 7) : 0, hextra = hvia == 2 ? (size_t)(o.geti("hextra") & 3) : 0;
                    unsigned char *base = huge_base();
                    if (hvia && !base) { c.ops_done--; c.execs--; return; }
                    if ((hvia == 1 || hvia == 2) && n > (uint64_t)SSIZE_MAX - 16) { c.ops_done--; c.execs--; return; }   // the buffer object itself could not describe it (a chunk list can: its chunks are smaller)
                    ByteBuffer hb; hb.data = base; hb.offset = hoff; hb.used = hoff + (size_t)n + hextra; hb.size = hb.used + (size_t)(o.geti("hextra") & 1);
                    const size_t n1 = hvia == 3 ? (size_t)(n / 3) : 0;   // two adjacent chunks behind one that is skipped and an empty one
                    ByteBuffer harr[4];
                    harr[0].data = base; harr[0].size = harr[0].used = 4; harr[0].offset = 0;
                    harr[1].data = base; harr[1].size = hoff + n1; harr[1].used = hoff + n1; harr[1].offset = hoff;
                    harr[2].data = base; harr[2].size = 9; harr[2].used = harr[2].offset = 5;
                    harr[3].data = base + hoff + n1; harr[3].size = (size_t)n - n1 + 1; harr[3].used = (size_t)n - n1; harr[3].offset = 0;
                    ByteChunks hbc; hbc.chunks = 4; hbc.active = 1; hbc.chunk = harr;
                    if (hvia) COUNT(hvia == 1 ? "probe.unmaterialised_length_through_buffer" : hvia == 2 ? "probe.unmaterialised_length_through_buffer_n" : "probe.unmaterialised_length_through_chunks");
                    if (ep == "mem_enc") {
                        LengthPrefixBuffer lpb; memset(&lpb, 0xa5, sizeof lpb);
                        LengthPrefixChunks lpc; memset(&lpc, 0xa5, sizeof lpc); lpc.payload = hbc;
                        int rc = hvia == 0 ? LENP(memory_encode, &lpb, ptr, (size_t)n) : hvia == 1 ? LENP(buffer_encode, &lpb, &hb) : hvia == 2 ? LENP(buffer_encode_n, &lpb, &hb, (size_t)n) : LENP(chunks_use, &lpc);
                        c.ev(EV_API, 2, (uint64_t)rc, hvia == 3 ? lpc.prefix.used : lpb.prefix.used);
                        if (hvia == 3) { check_prefix_obj(rc, lpc.prefix, lpc.prefix_, n); return; }
                        if (check_prefix_obj(rc, lpb.prefix, lpb.prefix_, n)) {
                            const void *wantp = hvia ? (const void *)(base + hoff) : (const void *)m.b.data;
                            if (lpb.payload.data + lpb.payload.offset != wantp || byte_buffer_rest(&lpb.payload) != n)
                                F("payloadobj", "payload object does not designate the %llu octets given", (unsigned long long)n);
                            if (hvia == 2 && (hb.offset != hoff + (size_t)n || hb.used != hoff + (size_t)n + hextra)) F("advance", "buffer advanced by %zd octets, expected n=%llu", (ssize_t)(hb.offset - hoff), (unsigned long long)n);
                        }
                        if (!m.blk->unchanged_outside(0, 0)) F("constbuf", "payload memory modified");
                        return;
                    }
                    if (!base) { c.ops_done--; c.execs--; return; }
                    auto to_sink = [&](Sink *sk) -> ssize_t {
                        return hvia == 0 ? LENP(memory_to_sink, sk, base, (size_t)n) : hvia == 1 ? LENP(buffer_to_sink, sk, &hb) : hvia == 2 ? LENP(buffer_to_sink_n, sk, &hb, (size_t)n) : LENP(chunks_to_sink, sk, &hbc);
                    };
                    unsigned char *pbase = base + hoff;
                    // (beyond the reserved range the pointers handed to the driver are never dereferenced either: only their arithmetic is checked)
                    if ((uint64_t)n + ref_prefix(k, n).size() > (uint64_t)SSIZE_MAX) {   // the total cannot be reported: refused before anything is emitted
                        VirtualDrv D0; D0.c = &c; D0.base = pbase; D0.total = n; D0.accept_small = true;
                        Sink v0; chunk_sink_init(&v0, VirtualDrv::sink_cb, &D0);
                        ssize_t rc0 = 0; bool fin0 = WITH_BUDGET(c, 64, rc0 = to_sink(&v0));
                        c.ev(EV_API, 1, (uint64_t)rc0, D0.moved);
                        COUNT("probe.total_beyond_ssize_max_refused");
                        if (!fin0 || rc0 != -EINVAL || D0.calls != 0) F("refuse", "prefix plus %llu payload octets exceed SSIZE_MAX: returned %zd after %llu sink calls, expected -EINVAL and nothing emitted", (unsigned long long)n, rc0, (unsigned long long)D0.calls);
                        if (hvia == 2 && hb.offset != hoff) F("refuse", "buffer marks changed by a refused request");
                        return;
                    }
                    VirtualDrv D; D.c = &c; D.base = pbase; D.total = n; D.accept_small = true;
                    const Json &cj = o.get("hcaps"); for (size_t i = 0; i < cj.size() && i < 16; ++i) D.caps.push_back(cj.ati(i, INT64_MAX));
                    Sink vk; chunk_sink_init(&vk, VirtualDrv::sink_cb, &D);
                    ssize_t rc = 0; bool fin = WITH_BUDGET(c, D.caps.size() + 32, rc = to_sink(&vk));
                    c.ev(EV_API, 1, (uint64_t)rc, D.moved);
                    if (!fin) { F("noprogress", "no return within the step budget (length %llu, %llu moved)", (unsigned long long)n, (unsigned long long)D.moved); return; }
                    Bytes want = ref_prefix(k, n);
                    if (D.small != want || D.small_after_payload) F("octets", "prefix on the line is not the %zu-octet encoding of %llu in front of the payload", want.size(), (unsigned long long)n);
                    if (D.bad_ptr || D.bad_n || D.moved != n) F("octets", "payload on the line is not exactly the %llu designated octets in order (%llu moved)", (unsigned long long)n, (unsigned long long)D.moved);
                    if (rc != (ssize_t)(want.size() + n)) F("total", "returned %zd, expected prefix %zu + payload %llu", rc, want.size(), (unsigned long long)n);
                    if (hvia == 2 && c.viol.empty() && (hb.offset != hoff + (size_t)n || hb.used != hoff + (size_t)n + hextra)) F("advance", "buffer advanced by %zd octets, expected n=%llu", (ssize_t)(hb.offset - hoff), (unsigned long long)n);
                    return;
                }
            }
            if (ep == "mem_sink") {
                ssize_t rc = 0; bool fin = WITH_BUDGET(c, budget, rc = LENP(memory_to_sink, &sink, ptr, (size_t)n));
                c.ev(EV_API, 1, (uint64_t)rc, snk.got.size());
                if (n > (uint64_t)SSIZE_MAX) { if (!fin || rc != -EINVAL || !snk.got.empty()) F("refuse", "length above SSIZE_MAX not refused (rc %zd)", rc); return; }
                check_sink(rc, fin, n == (uint64_t)len ? m.unread() : Bytes(), n);
            } else {
                LengthPrefixBuffer lpb; memset(&lpb, 0xa5, sizeof lpb);   /* a dirty object: nothing may depend on earlier content */
                int rc = LENP(memory_encode, &lpb, ptr, (size_t)n);
                c.ev(EV_API, 2, (uint64_t)rc, lpb.prefix.used);
                if (n > (uint64_t)SSIZE_MAX) { if (rc != -EINVAL) F("refuse", "length above SSIZE_MAX not refused (rc %d)", rc); return; }
                if (check_prefix_obj(rc, lpb.prefix, lpb.prefix_, n)) {
                    if (lpb.payload.data != m.b.data || byte_buffer_rest(&lpb.payload) != n || lpb.payload.offset != 0)
                        F("payloadobj", "payload object does not designate the %llu octets given", (unsigned long long)n);
                }
            }
            if (!m.blk->unchanged_outside(0, 0)) F("constbuf", "payload memory modified");
            return;
        }
        if (ep == "buf_enc" || ep == "buf_enc_n" || ep == "buf_sink" || ep == "buf_sink_n") {
            const Json &bj = o.get("buf");
            Buf B; B.make(bj.ati(0, len), bj.ati(1, len), bj.ati(2, 0), oi, 2);
            if (B.b.used == B.b.offset) { if (B.b.used < B.b.size) B.b.used++; else if (B.b.offset > 0) B.b.offset--; }  // at least one unread octet
            const Bytes unread = B.unread();
            const size_t rest = unread.size();
            if (B.b.offset > 0 && B.b.used < B.b.size) COUNT("probe.buffer_with_offset_and_free_space");
            bool with_n = ep == "buf_enc_n" || ep == "buf_sink_n";
            int64_t nn = o.geti("n", (int64_t)rest); if (nn < 1) nn = 1;
            size_t n = (size_t)nn;
            const size_t off0 = B.b.offset, used0 = B.b.used;
            if (with_n && n > rest) {
                // more than the unread content: must be refused, nothing emitted, buffer unchanged
                ssize_t rc; bool fin = true;
                if (ep == "buf_sink_n") fin = WITH_BUDGET(c, budget, rc = LENP(buffer_to_sink_n, &sink, &B.b, n));
                else { LengthPrefixBuffer lpb; rc = LENP(buffer_encode_n, &lpb, &B.b, n); }
                c.ev(EV_API, 3, (uint64_t)rc, n);
                if (!fin || rc != -EINVAL) F("refuse_n", "n=%zu exceeds the %zu unread octets, returned %zd", n, rest, rc);
                if (!snk.got.empty()) F("refuse_n", "octets emitted for a refused request");
                if (B.b.offset != off0 || B.b.used != used0) F("refuse_n", "buffer marks changed by a refused request");
                COUNT("probe.n_beyond_unread_refused");
                return;
            }
            Bytes designated = with_n ? Bytes(unread.begin(), unread.begin() + (long)n) : unread;
            if (ep == "buf_sink" || ep == "buf_sink_n") {
                ssize_t rc = 0; bool fin;
                if (with_n) fin = WITH_BUDGET(c, budget, rc = LENP(buffer_to_sink_n, &sink, &B.b, n));
                else fin = WITH_BUDGET(c, budget, rc = LENP(buffer_to_sink, &sink, &B.b));
                c.ev(EV_API, 4, (uint64_t)rc, snk.got.size());
                check_sink(rc, fin, designated, designated.size());
            } else {
                LengthPrefixBuffer lpb; memset(&lpb, 0xa5, sizeof lpb);   /* a dirty object: nothing may depend on earlier content */
                int rc = with_n ? LENP(buffer_encode_n, &lpb, &B.b, n) : LENP(buffer_encode, &lpb, &B.b);
                c.ev(EV_API, 5, (uint64_t)rc, lpb.prefix.used);
                if (check_prefix_obj(rc, lpb.prefix, lpb.prefix_, designated.size())) {
                    if (lpb.payload.data != B.blk->p + off0 || byte_buffer_rest(&lpb.payload) != designated.size())
                        F("payloadobj", "payload object does not designate the %zu designated octets at the buffer's read mark", designated.size());
                }
            }
            if (designated.size() > kind_max(k)) return;
            bool sink_failed = false; for (auto e : snk.errors) if (!is_transient(e)) sink_failed = true;
            if (with_n && c.viol.empty() && !sink_failed) {
                if (B.b.offset != off0 + n || B.b.used != used0) F("advance", "buffer advanced by %zd octets, expected n=%zu (unread before: %zu)", (ssize_t)(B.b.offset - off0), n, rest);
                else if (n < rest) COUNT("probe.buffer_n_less_than_rest");
            }
            if (!B.blk->unchanged_outside(0, 0)) F("constbuf", "buffer memory modified by an encoder");
            return;
        }
        if (ep == "chunks_use" || ep == "chunks_sink") {
            const Json &cj = o.get("chunks");
            size_t nch = cj.size(); if (nch < 1) nch = 1; if (nch > 12) nch = 12;
            std::vector<Buf> bufs(nch);
            std::vector<ByteBuffer> arr(nch);
            for (size_t q = 0; q < nch; ++q) { const Json &t3 = cj.at(q); bufs[q].make(t3.ati(0, 1), t3.ati(1, 0), t3.ati(2, 0), oi, 3 + q); arr[q] = bufs[q].b; }
            int64_t act = o.geti("active"); if (act < 0) act = 0; if ((size_t)act > nch) act = (int64_t)nch;
            Bytes designated; bool empty_mid = false;
            for (size_t q = (size_t)act; q < nch; ++q) { Bytes u = bufs[q].unread(); if (u.empty() && q + 1 < nch && q > (size_t)act) empty_mid = true; designated.insert(designated.end(), u.begin(), u.end()); }
            if (designated.empty()) { c.ops_done--; c.execs--; return; }
            if (empty_mid) COUNT("probe.chunk_list_with_empty_chunk");
            if (act > 0) COUNT("probe.chunk_list_active_nonzero");
            if (ep == "chunks_sink") {
                ByteChunks bc; bc.chunks = nch; bc.active = (size_t)act; bc.chunk = arr.data();
                ssize_t rc = 0; bool fin = WITH_BUDGET(c, budget + 8 * designated.size(), rc = LENP(chunks_to_sink, &sink, &bc));
                c.ev(EV_API, 6, (uint64_t)rc, snk.got.size());
                check_sink(rc, fin, designated, designated.size());
            } else {
                LengthPrefixChunks lpc; memset(&lpc, 0xa5, sizeof lpc);
                lpc.payload.chunks = nch; lpc.payload.active = (size_t)act; lpc.payload.chunk = arr.data();
                int rc = LENP(chunks_use, &lpc);
                c.ev(EV_API, 7, (uint64_t)rc, lpc.prefix.used);
                check_prefix_obj(rc, lpc.prefix, lpc.prefix_, designated.size());
            }
            for (size_t q = 0; q < nch; ++q) if (!bufs[q].blk->unchanged_outside(0, 0)) F("constbuf", "chunk memory modified");
            return;
        }

        // -------------------------------------------------- decoders
        std::vector<int64_t> lens;
        if (ep == "stream") { const Json &fj = o.get("frames"); for (size_t q = 0; q < fj.size() && q < 6; ++q) { int64_t l = fj.ati(q, 1); if (l < 1) l = 1; if (l > 4000) l = 4000; lens.push_back(l); } if (lens.empty()) lens.push_back(1); }
        else lens.push_back(len);
        for (auto &l : lens) if ((uint64_t)l > kind_max(k)) l = (int64_t)kind_max(k);
        SimSource src; src.c = &c; src.octet_kind = o.geti("src_octet") != 0;
        std::vector<Bytes> payloads;
        for (size_t f = 0; f < lens.size(); ++f) {
            Bytes pl((size_t)lens[f]); for (size_t j = 0; j < pl.size(); ++j) pl[j] = pay(oi * 7 + f, j);
            Bytes pre = ref_prefix(k, pl.size());
            src.data.insert(src.data.end(), pre.begin(), pre.end());
            src.data.insert(src.data.end(), pl.begin(), pl.end());
            payloads.push_back(pl);
        }
        uint64_t declared_only = 0;   // != 0: the stream holds a prefix declaring this length and just a few payload octets
        if (o.has("hdecl") && (ep == "mem_from" || ep == "buf_from")) {
            static const uint64_t DECL[12] = {0xffffffffull, 0x80000000ull, 0x7fffffffull, 0x10000ull, 0xffffull, 0x100000000ull, 1ull << 63, ~0ull, (1ull << 63) - 1, 0xffffff00ull, 0x8000ull, 0xffffffff00000001ull};
            uint64_t dl = DECL[(uint64_t)o.geti("hdecl") % 12];
            if (dl > kind_max(k)) dl = kind_max(k);
            if (k == 0 && (o.geti("hdecl") & 1)) dl = DECL[(uint64_t)o.geti("hdecl") % 12];   // varint: any 64-bit value can be declared
            if (dl > (uint64_t)len + 64) {
                declared_only = dl;
                src.data = ref_prefix(k, dl);
                for (size_t j = 0; j < 8; ++j) src.data.push_back(pay(oi * 7, j));
                COUNT("probe.prefix_declares_more_than_any_destination");
            }
        }
        // fragmentation script: short reads (k >= 1); for the fixed-width kinds, whose prefix and payload are read through
        // source_get_chunk(), also the interruptions that call documents as "retry" (0, -EINTR, -EAGAIN). The varint prefix
        // is read octet-wise without retry (pass-through, C17), so for that kind only short reads are scripted.
        { Json s = Json::arr(); const Json &fj = o.get("frag");
          for (size_t q = 0; q < fj.size(); ++q) { int64_t v = fj.ati(q, 1); bool transient = v == 0 || v == -EINTR || v == -EAGAIN; const bool lending = o.has("gbwin") && (ep == "to_sink" || ep == "stream"); if (v < 1 && !(transient && k != 0 && !(lending && v != 0))) v = 1; s.push((long long)v); }   // a lending source is read with single at-most calls (no retry of -EINTR/-EAGAIN, as C17's plumbing latitude says): only short and empty reads there
          src.begin_op(s); }
        if (!src.script.e.empty()) { size_t pl = ref_prefix(k, payloads[0].size()).size(); if (pl > 1 && src.script.e[0] >= 1 && src.script.e[0] < (int64_t)pl) COUNT("probe.frame_split_inside_prefix"); }
        for (auto v : src.script.e) if (v < 1) { COUNT("probe.source_interruption_during_decode"); break; }
        Source source; src.bind(&source);
        // optionally a second task decodes a frame of its own while this op's source driver is being called
        struct DIntruder { Ctx *c; int kind; size_t len, oi; } dintr{&c, 0, 0, oi};
        if (o.has("dintrude")) {
            const Json &ij = o.get("dintrude");
            src.intrude_at = ij.ati(0, 0) & 31; dintr.kind = (int)(((ij.ati(1, 0) % 6) + 6) % 6); dintr.len = (size_t)(1 + (ij.ati(2, 1) & 127));
            src.intruder_arg = &dintr;
            src.intruder = [](void *a) {
                DIntruder &I = *(DIntruder *)a; Ctx &cc = *I.c; COUNT("probe.second_task_decoded_during_a_source_call");
                size_t L = I.len; if ((uint64_t)L > kind_max(I.kind)) L = (size_t)kind_max(I.kind);
                SimSource s2; s2.c = &cc; s2.data = ref_prefix(I.kind, L); for (size_t j = 0; j < L; ++j) s2.data.push_back(pay(I.oi * 17 + 5, j));
                s2.data.push_back(0x99);   // something behind the frame that has to stay in the stream
                Source so2; s2.bind(&so2);
                GuardedBlock dst(L);
                ssize_t rc = flenp_memory_from_source((LengthPrefixKind)I.kind, &so2, dst.p, L);
                if (rc != (ssize_t)L || !bytes_eq(dst.p, s2.data.data() + (s2.data.size() - 1 - L), L) || s2.pos != s2.data.size() - 1 || !dst.unchanged_outside(0, L))
                    cc.fail("intruder.decode", "a frame of %zu octets (kind %d) decoded while another decoder's source call was in progress came out wrong (rc %zd, %zu octets taken from the stream)", L, I.kind, rc, s2.pos);
            };
        }
        if (o.has("gbwin") && (ep == "to_sink" || ep == "stream")) { int64_t wv = o.geti("gbwin"); if (wv >= 1 && wv <= 4096) { src.lend(&source, (size_t)wv); COUNT("probe.source_lends_its_window"); } }
        const uint64_t dbudget = 8 * (src.data.size() + src.script.e.size() + snk.script.e.size()) + 256;

        if (ep == "mem_from") {
            int64_t cap = o.geti("cap", len); if (cap < 0) cap = 0; if (cap > len + 64) cap = len + 64;
            GuardedBlock dst((size_t)cap);
            ssize_t rc = 0; bool fin = WITH_BUDGET(c, dbudget, rc = LENP(memory_from_source, &source, dst.p, (size_t)cap));
            c.ev(EV_API, 8, (uint64_t)rc, (uint64_t)cap);
            if (!fin) { F("noprogress", "no return within the step budget"); return; }
            if (declared_only) {
                // beyond SSIZE_MAX the length cannot even be reported as a result: any refusal will do there, out-of-memory is demanded below that
                if (rc != -ENOMEM && !(declared_only > (uint64_t)SSIZE_MAX && rc < 0)) F("nomem", "destination of %lld octets, prefix declares %llu: returned %zd, expected -ENOMEM", (long long)cap, (unsigned long long)declared_only, rc);
                if (!dst.unchanged_outside(0, 0)) F("nomem", "destination modified although the declared frame does not fit");
                return;
            }
            if ((size_t)cap >= payloads[0].size()) {
                if (rc != (ssize_t)payloads[0].size()) F("result", "destination of %lld octets, frame of %zu: returned %zd", (long long)cap, payloads[0].size(), rc);
                else if (!bytes_eq(dst.p, payloads[0].data(), payloads[0].size())) F("payload", "decoded payload differs");
                if (!dst.unchanged_outside(0, payloads[0].size())) F("bounds", "destination written beyond the payload");
                if (src.partials) COUNT("probe.fragmented_decode");
            } else {
                if (rc != -ENOMEM) F("nomem", "destination of %lld octets, frame of %zu: returned %zd, expected -ENOMEM", (long long)cap, payloads[0].size(), rc);
                if (!dst.unchanged_outside(0, 0)) F("nomem", "destination modified although the frame does not fit");
                if ((size_t)cap + 1 == payloads[0].size()) COUNT("probe.destination_one_octet_too_small");
            }
            return;
        }
        if (ep == "buf_from") {
            int64_t cap = o.geti("cap", len); if (cap < 0) cap = 0; if (cap > len + 64) cap = len + 64;
            int64_t before = o.get("dbuf").ati(1, 0); if (before < 0) before = 0; if (before > 64) before = 64;
            if (cap + before < 1) cap = 1;
            Buf D; D.make(before + cap, before, 0, oi, 9);
            // give the destination buffer a read mark in the middle of its content sometimes
            if (before > 1 && (o.get("dbuf").ati(0, 0) & 1)) D.b.offset = (size_t)before / 2;
            const size_t off0 = D.b.offset, used0 = D.b.used;
            ssize_t rc = 0; bool fin = WITH_BUDGET(c, dbudget, rc = LENP(buffer_from_source, &source, &D.b));
            c.ev(EV_API, 9, (uint64_t)rc, (uint64_t)cap);
            if (!fin) { F("noprogress", "no return within the step budget"); return; }
            size_t L = payloads[0].size();
            if (declared_only) {
                if (rc != -ENOMEM && !(declared_only > (uint64_t)SSIZE_MAX && rc < 0)) F("nomem", "room for %lld octets, prefix declares %llu: returned %zd, expected -ENOMEM", (long long)cap, (unsigned long long)declared_only, rc);
                if (D.b.used != used0 || D.b.offset != off0 || !D.blk->unchanged_outside(0, 0)) F("nomem", "destination buffer changed although the declared frame does not fit");
                return;
            }
            if ((size_t)cap >= L) {
                if (rc != (ssize_t)L) F("result", "room for %lld octets, frame of %zu: returned %zd", (long long)cap, L, rc);
                else {
                    if (D.b.used != used0 + L || D.b.offset != off0) F("append", "payload must be appended to the filled region: (used,offset) (%zu,%zu) -> (%zu,%zu), frame %zu", used0, off0, D.b.used, D.b.offset, L);
                    else if (!bytes_eq(D.blk->p + used0, payloads[0].data(), L)) F("payload", "appended octets differ from the payload");
                    if (!D.blk->unchanged_outside(used0, used0 + L)) F("bounds", "buffer memory outside the appended region modified");
                    if (used0 > 0) COUNT("probe.append_behind_existing_content");
                }
            } else {
                if (rc != -ENOMEM) F("nomem", "room for %lld octets, frame of %zu: returned %zd, expected -ENOMEM", (long long)cap, L, rc);
                if (D.b.used != used0 || D.b.offset != off0 || !D.blk->unchanged_outside(0, 0)) F("nomem", "destination buffer changed although the frame does not fit");
                if ((size_t)cap + 1 == L) COUNT("probe.destination_one_octet_too_small");
            }
            return;
        }
        if (ep == "to_sink" || ep == "stream") {
            Bytes all;
            for (size_t f = 0; f < payloads.size(); ++f) {
                size_t s0 = snk.got.size();
                ssize_t rc = 0; bool fin = WITH_BUDGET(c, dbudget, rc = LENP(decode_source_to_sink, &source, &sink));
                c.ev(EV_API, 10, (uint64_t)rc, snk.got.size());
                c.execs++;
                if (!fin) { F("noprogress", "no return within the step budget"); return; }
                int64_t hard = 0; for (auto e : snk.errors) if (!is_transient(e)) { hard = e; break; }
                Bytes got(snk.got.begin() + (long)s0, snk.got.end());
                if (hard) {
                    if (rc != hard) F("sinkerror", "sink failed with %lld, returned %zd", (long long)hard, rc);
                    if (got.size() > payloads[f].size() || !bytes_eq(got.data(), payloads[f].data(), got.size())) F("prefix", "sink does not hold a prefix of the payload after its error");
                    return;
                }
                if (rc != (ssize_t)payloads[f].size()) { F("result", "frame %zu of %zu with %zu octets: returned %zd", f, payloads.size(), payloads[f].size(), rc); return; }
                if (got != payloads[f]) { F("payload", "frame %zu of %zu: sink received %zu octets that differ from the %zu payload octets", f, payloads.size(), got.size(), payloads[f].size()); return; }
            }
            if (src.pos != src.data.size()) F("consumed", "%zu octets of the stream left after decoding all frames", src.data.size() - src.pos);
            if (payloads.size() > 1 && src.partials) COUNT("probe.multi_frame_stream_fragmented");
            return;
        }
        c.ops_done--; c.execs--;
    }
};

}  // namespace

int main(int argc, char **argv) {
    LenpHarness h;
    return sim_main(argc, argv, h);
}
