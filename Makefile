# Build of the deterministic-simulation harnesses for ft/ufw.
#
#   make setup            configure (toolchain.h) + build every harness
#   make bin/<harness>    one harness
#
# UFW_SRC  tree of ft/ufw to build the library code from (default /repo)
# BUILD    build directory (default build/main; sensitivity runs use another)

UFW_SRC ?= /repo
ROOT    := $(abspath $(dir $(lastword $(MAKEFILE_LIST))))
BUILD   ?= $(ROOT)/build/main
CC      := clang
CXX     := clang++
GUARD   := -DFT_UFW_VERIF

ifeq ($(PLAIN),1)
# plain build for valgrind (./check selftest valgrind): no sanitizers, no pattern initialisation of locals
SAN     :=
INITPAT :=
DWARF   := -gdwarf-4
else
SAN     := -fsanitize=address,undefined -fno-sanitize-recover=null,bounds,object-size,pointer-overflow -fno-omit-frame-pointer
INITPAT := -ftrivial-auto-var-init=pattern
endif
# EXTRA_DEFS: build variant (./check builds a second set of binaries with -DNDEBUG under $(BUILD)/nd: the library's and the
# header macros' assert()s compiled out, as in a release build of the library)
EXTRA_DEFS ?=
# the CMake option UFW_USE_BUILTIN_SWAP (default ON); the twin build turns it off, so that the portable byte-swap code runs too
SWAPDEF ?= -DUFW_USE_BUILTIN_SWAP
COMMON  := -O1 -g $(DWARF) $(SAN) $(INITPAT) $(GUARD) $(EXTRA_DEFS) -DSYSTEM_ENDIANNESS_LITTLE $(SWAPDEF) -D_DEFAULT_SOURCE
INC     := -I$(BUILD)/cfg/include -I$(UFW_SRC)/include
CFLAGS  := -std=gnu99 $(COMMON) $(INC) -Wall -Wextra -Wno-unused-parameter
# ufw/compat/ssize-t.h has an unbalanced extern "C" brace under C++ when sys/types.h exists: bypass it
CXXFLAGS:= -std=gnu++17 $(COMMON) $(INC) -I$(ROOT)/sim -DINC_UFW_UFW_COMPAT_SSIZE_T_H -include sys/types.h -include limits.h -include stdint.h -Wall -Wextra -Wno-unused-parameter -Wno-missing-field-initializers -Wno-c99-designator -Wno-unused-function -Wno-misleading-indentation
LDFLAGS := $(SAN) -lm $(EXTRA_LDFLAGS)

LIBSRC := allocator.c crc-16-arc.c endpoints/buffer.c endpoints/continuable-sink.c endpoints/core.c \
          endpoints/instrumentable.c endpoints/trivial.c length-prefix.c byte-buffer.c persistent-storage.c \
          registers/core.c register-protocol.c rfc1055.c ring-buffer-iter.c variable-length-integer.c octet-ring.c
LIBOBJ := $(addprefix $(BUILD)/lib/,$(LIBSRC:.c=.o))
LIBHDR := $(shell find $(UFW_SRC)/include $(UFW_SRC)/src -name '*.h' 2>/dev/null)

HARNESSES := $(patsubst $(ROOT)/sim/%.cpp,%,$(wildcard $(ROOT)/sim/*sim.cpp))
BINS      := $(addprefix $(BUILD)/bin/,$(HARNESSES))
SIMHDR    := $(wildcard $(ROOT)/sim/*.hpp)

.SECONDARY:
.PHONY: setup all clean
setup all: $(BINS)
# the default build also builds its twin under $(BUILD)/nd: the library's other configuration (release build: assert() compiled
# out; UFW_USE_BUILTIN_SWAP off)
ifeq ($(EXTRA_DEFS)$(PLAIN),)
.PHONY: nd
setup all: nd
nd:
	@$(MAKE) -s -C $(ROOT) UFW_SRC=$(UFW_SRC) BUILD=$(BUILD)/nd EXTRA_DEFS=-DNDEBUG SWAPDEF= all
endif

TOOLCHAIN_H := $(BUILD)/cfg/include/ufw/toolchain.h
$(TOOLCHAIN_H): $(UFW_SRC)/include/ufw/toolchain.h.in $(UFW_SRC)/CMakeLists.txt
	@mkdir -p $(BUILD)/cfg
	@echo "  CONFIGURE toolchain.h from $(UFW_SRC)"
	@cmake -S $(UFW_SRC) -B $(BUILD)/cfg/cmake -G Ninja -DCMAKE_C_COMPILER=$(CC) -DCMAKE_CXX_COMPILER=$(CXX) > $(BUILD)/cfg/configure.log 2>&1 \
	  || { cat $(BUILD)/cfg/configure.log; exit 1; }
	@mkdir -p $(BUILD)/cfg/include/ufw
	@cp $(BUILD)/cfg/cmake/include/ufw/toolchain.h $@
	@rm -rf $(BUILD)/cfg/cmake

$(BUILD)/lib/%.o: $(UFW_SRC)/src/%.c $(LIBHDR) $(TOOLCHAIN_H)
	@mkdir -p $(dir $@)
	@echo "  CC  $<"
	@$(CC) $(CFLAGS) -c $< -o $@

$(BUILD)/obj/%.o: $(ROOT)/sim/%.cpp $(SIMHDR) $(LIBHDR) $(TOOLCHAIN_H)
	@mkdir -p $(dir $@)
	@echo "  CXX $<"
	@$(CXX) $(CXXFLAGS) -c $< -o $@

# harness-side C sources (a register table written with the header's macros has to be compiled as C)
$(BUILD)/obj/%.o: $(ROOT)/sim/%.c $(LIBHDR) $(TOOLCHAIN_H)
	@mkdir -p $(dir $@)
	@echo "  CC  $<"
	@$(CC) $(CFLAGS) -c $< -o $@
$(BUILD)/bin/regsim: $(BUILD)/obj/regmacros.o
$(BUILD)/bin/slipsim: $(BUILD)/obj/slipmacros.o

# regpsim makes the C library's malloc fail on demand underneath the library's own ufw_malloc() (link-time seam, nothing in /repo changes)
$(BUILD)/bin/regpsim: EXTRA_LD := -Wl,--wrap=malloc -Wl,--wrap=free
$(BUILD)/bin/%: $(BUILD)/obj/%.o $(BUILD)/obj/hdrmacros.o $(LIBOBJ)
	@mkdir -p $(dir $@)
	@echo "  LD  $@"
	@$(CXX) $^ $(LDFLAGS) $(EXTRA_LD) -o $@

clean:
	rm -rf $(ROOT)/build
