#!/bin/bash
# tools/adopt_seed.sh <property id> <name> "<what it needs to manifest>"
# Confirms a breaking change produced by an independent sub-agent in /tmp/wt-<id> and stores it as /verif/seeded/<name>/.
#   1. the patch applies to a clean copy of /repo HEAD   2. the repository's test suite still passes with it
#   3. the demonstration fails with the patch and passes without   4. (reported, not required) which of our checks catch it
set -u
ID="$1"; NAME="$2"; NEEDS="${3:-}"
WT="${SEED_WT:-/tmp/wt-$ID}"; ROOT="$(cd "$(dirname "$0")/.." && pwd)"; DST="$ROOT/seeded/$NAME"
[ -f "$WT/demo/patch.diff" ] || { echo "no patch in $WT/demo"; exit 2; }
mkdir -p "$DST"
cp "$WT/demo/patch.diff" "$DST/patch.diff"; cp "$WT/demo/demo.c" "$DST/demo.c"
cp "$WT/demo/run.sh" "$DST/run.orig.sh"
[ -n "${SEED_EXTRA_FLAGS:-}" ] && echo "$SEED_EXTRA_FLAGS" > "$DST/extra_flags"
cat > "$DST/run.sh" <<'RUN'
#!/bin/sh
# Builds the demonstration against a tree of ft/ufw (UFW_SRC, default /repo) and runs it: exit 0 = property held.
HERE="$(cd "$(dirname "$0")" && pwd)"
SRC="${UFW_SRC:-/repo}"; CFG="${UFW_CFG:-/verif/build/main/cfg/include}"; BIN="${DEMO_BIN:-/var/tmp/ufw-seed-demo.$$}"
LIB="allocator crc-16-arc endpoints/buffer endpoints/continuable-sink endpoints/core endpoints/instrumentable endpoints/trivial length-prefix byte-buffer persistent-storage registers/core registers/utilities hexdump register-protocol rfc1055 ring-buffer-iter variable-length-integer octet-ring"
FILES=""; for f in $LIB; do FILES="$FILES $SRC/src/$f.c"; done
EXTRA="$(cat "$HERE/extra_flags" 2>/dev/null)"   # a demonstration may need link-time seams of its own (e.g. -Wl,--wrap=malloc)
${CC:-gcc} -std=gnu99 -O1 -w -I"$SRC/include" -I"$CFG" -DSYSTEM_ENDIANNESS_LITTLE -DUFW_USE_BUILTIN_SWAP -D_DEFAULT_SOURCE -o "$BIN" "$HERE/demo.c" $FILES -lm $EXTRA || exit 3
"$BIN"; rc=$?; rm -f "$BIN"; exit $rc
RUN
chmod +x "$DST/run.sh"
SCR="$(mktemp -d /var/tmp/ufw-seed.XXXXXX)"; trap 'rm -rf "$SCR" /var/tmp/ufw-seed-demo.*' EXIT
rsync -a --exclude _build --exclude .git /repo/ "$SCR/"
DEMO_CLEAN=fail; DEMO_PATCHED=pass; BASE=fail; APPLY=fail
if UFW_SRC="$SCR" DEMO_BIN="$SCR/demo.bin" "$DST/run.sh" > "$SCR/demo0.log" 2>&1; then DEMO_CLEAN=pass; fi
if patch -s -p1 -d "$SCR" < "$DST/patch.diff"; then APPLY=ok; fi
if UFW_SRC="$SCR" DEMO_BIN="$SCR/demo.bin" "$DST/run.sh" > "$SCR/demo1.log" 2>&1; then DEMO_PATCHED=pass; else DEMO_PATCHED=fail; fi
if "$ROOT/tools/baseline.sh" "$SCR" > "$SCR/base.log" 2>&1; then BASE=pass; fi
echo "adopt $NAME: patch applies=$APPLY baseline=$BASE demo(clean)=$DEMO_CLEAN demo(patched)=$DEMO_PATCHED"
tail -2 "$SCR/demo1.log"
OK=false; [ "$APPLY" = ok ] && [ "$BASE" = pass ] && [ "$DEMO_CLEAN" = pass ] && [ "$DEMO_PATCHED" = fail ] && OK=true
python3 - "$DST" "$ID" "$NAME" "$NEEDS" "$APPLY" "$BASE" "$DEMO_CLEAN" "$DEMO_PATCHED" <<'PY'
import json, sys
dst, pid, name, needs, apply_, base, dc, dp = sys.argv[1:9]
json.dump({"property": pid, "name": name, "origin": "independent sub-agent given only the property text and a scratch worktree",
           "needs_to_manifest": needs,
           "confirmed": {"patch_applies_to_repo_head": apply_ == "ok", "baseline_test_suite_with_patch": base, "demo_without_patch": dc, "demo_with_patch": dp},
           "ran": ["tools/baseline.sh <scratch copy with patch>", "seeded/%s/run.sh with UFW_SRC=<clean copy> and <patched copy>" % name, "./check selftest seeded %s" % name]},
          open(dst + "/meta.json", "w"), indent=1)
PY
$OK || { echo "adopt $NAME: NOT confirmed"; exit 1; }
