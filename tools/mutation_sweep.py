#!/usr/bin/env python3
"""tools/mutation_sweep.py [--per-file N] [--workers W] [--seed S] [--only file-substring] [--out dir]

Systematic sensitivity measurement, complementing the hand-made mutants and the seeded changes: small syntactic mutants
(relational / logical / arithmetic operator replaced, small constant changed, statement deleted) are generated at sampled
sites of the library files the properties are anchored in. Each mutant is
  1. built and run against the repository's own test suite (tools/baseline.sh) - a mutant the suite kills is discarded;
  2. otherwise run against the quick tier of every check whose property is anchored in (or depends on) that file.
A mutant that passes the suite and all those checks is a SURVIVOR: either equivalent, or a blind spot to look at.
Nothing under /repo is touched (scratch copies under /var/tmp); results go to <out>/results.jsonl and <out>/summary.txt.
"""
import argparse, json, os, random, re, shutil, subprocess, sys, tempfile, time
from concurrent.futures import ThreadPoolExecutor

ROOT = os.path.dirname(os.path.dirname(os.path.abspath(__file__)))
FILES = {   # library file -> checks that have to notice a defect in it
    "src/registers/core.c": ["C01", "C02", "C03", "C04", "C05"],
    "src/register-protocol.c": ["C06", "C07", "C08", "C09"],
    "src/persistent-storage.c": ["C10", "C11"],
    "src/rfc1055.c": ["C12", "C08", "C09"],
    "src/length-prefix.c": ["C13", "C08", "C09"],
    "src/endpoints/core.c": ["C17", "C13", "C12"],
    "src/endpoints/buffer.c": ["C17"],
    "src/endpoints/continuable-sink.c": ["C09"],
    "src/byte-buffer.c": ["C18", "C17", "C09"],
    "src/ring-buffer-iter.c": ["C19"],
    "include/ufw/ring-buffer.h": ["C19"],
    "include/ufw/ring-buffer-iter.h": ["C19"],
    "src/crc-16-arc.c": ["C07", "C08"],
    "src/variable-length-integer.c": ["C13", "C08", "C09"],
    "src/allocator.c": ["C09"],
}

QUICK = {"C01": 500000, "C02": 500000, "C03": 500000, "C04": 1000000, "C05": 500000, "C06": 1500000, "C07": 24000, "C08": 1000000, "C09": 1500000,
         "C10": 2500000, "C11": 500000, "C12": 2500000, "C13": 1200000, "C17": 3000000, "C18": 1500000, "C19": 4000000}
OPS = [  # (name, regex, replacement) - applied to one match on one line
    ("ror", r"(?<![<>=!-])<(?![<=])", "<="), ("ror", r"<=", "<"), ("ror", r"(?<![<>=!-])>(?![>=])", ">="), ("ror", r">=", ">"),
    ("ror", r"==", "!="), ("ror", r"!=", "=="),
    ("lor", r"&&", "||"), ("lor", r"\|\|", "&&"),
    ("aor", r"(?<=[\w\)\]] )\+(?= [\w\(])", "-"), ("aor", r"(?<=[\w\)\]] )-(?= [\w\(])", "+"),
    ("const", r"\b1u\b", "2u"), ("const", r"\b0u\b", "1u"), ("const", r"\b2u\b", "1u"), ("const", r"(?<![\w.])1(?![\w.])", "0"),
    ("neg", r"\bif \(", "if (!"),   # negates the first operand of the condition
]

def sites(path):
    """yield (lineno, opname, new line) for every applicable mutation site of a source file"""
    lines = open(path, encoding="utf-8", errors="replace").read().split("\n")
    in_comment = False
    out = []
    for i, l in enumerate(lines):
        s = l.strip()
        if in_comment:
            if "*/" in s: in_comment = False
            continue
        if s.startswith("/*") and "*/" not in s: in_comment = True; continue
        if not s or s.startswith(("//", "*", "/*", "#", "typedef", "extern", "static inline", "static ")) and not s.endswith(";"): continue
        if s.startswith("#") or s.startswith("*") or s.startswith("//") or s.startswith("/*"): continue
        if "assert(" in s: continue
        code = l.split("/*")[0]
        for name, rx, rep in OPS:
            for m in re.finditer(rx, code):
                # keep out of string literals and include lines
                if code.count('"', 0, m.start()) % 2: continue
                new = code[:m.start()] + rep + code[m.end():] + l[len(code):]
                out.append((i, name, new))
        # statement deletion: assignments and plain calls
        if re.match(r"^\s+[\w\->\.\[\]\*\(\)]+ ?(=|\+=|-=|\|=|&=) ?[^=].*;\s*(\\)?$", l) and "for (" not in l and not re.match(r"^\s+(const |static |unsigned |size_t |ssize_t |int |uint|Register|RP|Byte|struct |bool |char |void )", l):
            out.append((i, "sdl", re.sub(r"\S.*?;", ";", l, count=1)))
    return lines, out

def run(cmd, env=None, timeout=3600):
    try:
        p = subprocess.run(cmd, shell=True, stdout=subprocess.PIPE, stderr=subprocess.STDOUT, env=env, timeout=timeout, text=True)
        return p.returncode, p.stdout
    except subprocess.TimeoutExpired as e:
        return 124, (e.stdout or "") if isinstance(e.stdout, str) else ""

def evaluate(job):
    idx, rel, lineno, opname, newline, checks, out, jobs = job
    scr = tempfile.mkdtemp(prefix="ufw-msw.", dir="/var/tmp")
    res = {"id": idx, "file": rel, "line": lineno + 1, "op": opname, "new": newline.strip()[:160]}
    try:
        run("rsync -a --exclude _build --exclude .git /repo/ %s/" % scr)
        p = os.path.join(scr, rel)
        lines = open(p, encoding="utf-8", errors="replace").read().split("\n")
        res["old"] = lines[lineno].strip()[:160]
        lines[lineno] = newline
        open(p, "w", encoding="utf-8").write("\n".join(lines))
        rc, o = run("BASELINE_TIMEOUT=120 %s/tools/baseline.sh %s" % (ROOT, scr), timeout=900)
        if rc != 0:
            res["verdict"] = "killed-by-repo-tests" if "error:" not in o.lower() or "ctest" in o.lower() else "does-not-build"
            return res
        alt = os.path.join(ROOT, "build", "alt-msw.%d" % idx)
        run("rm -rf %s; rsync -a %s/build/main/ %s/" % (alt, ROOT, alt))
        env = dict(os.environ, UFW_SRC=scr, VERIF_BUILD=alt)
        caught = []
        # two passes: a sixth of the quick tier's runs first (most mutants fall there), the full quick tier for what is left
        for frac in (6, 1):
            for c in checks:
                runs = QUICK[c] // frac
                rc, o = run("%s/check %s --tier quick --runs %d --no-evidence --stop-early --shrink-budget 0 --jobs %d --replay-dir %s/replays" % (ROOT, c, runs, jobs, alt), env=env, timeout=3600)
                tags = sorted(set(re.findall(r"tag=(C[0-9]+:[^ ]+)", o)))
                if rc == 1: caught.append({"check": c, "tags": tags[:4], "runs": runs}); break
                if rc not in (0, 1): res.setdefault("errors", []).append({"check": c, "rc": rc, "tail": o[-300:]})
            if caught: break
        res["verdict"] = "caught" if caught else "SURVIVED"
        res["caught_by"] = caught
        run("rm -rf %s %s.make.log" % (alt, alt))
        return res
    finally:
        shutil.rmtree(scr, ignore_errors=True)

def main():
    ap = argparse.ArgumentParser()
    ap.add_argument("--per-file", type=int, default=20); ap.add_argument("--workers", type=int, default=4); ap.add_argument("--seed", type=int, default=1)
    ap.add_argument("--only", default=""); ap.add_argument("--out", default=os.path.join(ROOT, "build", "mutation-sweep"))
    a = ap.parse_args()
    os.makedirs(a.out, exist_ok=True)
    rnd = random.Random(a.seed)
    jobs = []
    for rel, checks in FILES.items():
        if a.only and a.only not in rel: continue
        path = os.path.join("/repo", rel)
        if not os.path.exists(path): continue
        _, ss = sites(path)
        rnd.shuffle(ss)
        # spread over operators: at most per_file, round-robin over op kinds
        byop = {}
        for s in ss: byop.setdefault(s[1], []).append(s)
        pick = []
        while len(pick) < a.per_file and any(byop.values()):
            for k in list(byop):
                if byop[k] and len(pick) < a.per_file: pick.append(byop[k].pop())
        for (ln, op, new) in pick: jobs.append([len(jobs), rel, ln, op, new, checks, a.out, max(1, 16 // a.workers)])
    print("mutation sweep: %d mutants over %d files, %d workers" % (len(jobs), len({j[1] for j in jobs}), a.workers), flush=True)
    t0 = time.time(); results = []
    with ThreadPoolExecutor(max_workers=a.workers) as ex, open(os.path.join(a.out, "results.jsonl"), "a") as rf:
        for r in ex.map(evaluate, jobs):
            results.append(r); rf.write(json.dumps(r) + "\n"); rf.flush()
            print("%-22s %-34s:%-5d %-5s %s" % (r["verdict"], r["file"], r["line"], r["op"], r.get("new", "")[:70]), flush=True)
    tot = len(results); k = sum(r["verdict"].startswith("killed") or r["verdict"] == "does-not-build" for r in results); c = sum(r["verdict"] == "caught" for r in results); s = [r for r in results if r["verdict"] == "SURVIVED"]
    with open(os.path.join(a.out, "summary.txt"), "a") as f:
        f.write("seed %d per-file %d: %d mutants, %d discarded (repository tests or build), %d caught by the checks, %d survived, %.0f s\n" % (a.seed, a.per_file, tot, k, c, len(s), time.time() - t0))
        for r in s: f.write("  SURVIVED %s:%d %s | %s -> %s\n" % (r["file"], r["line"], r["op"], r.get("old", ""), r["new"]))
    print(open(os.path.join(a.out, "summary.txt")).read())

if __name__ == "__main__":
    main()
