#!/bin/bash
# tools/coverage.sh [plans per property]   - which lines of the library do the harnesses execute?
# Builds the harnesses plain (no sanitizers) with clang's source-based coverage into build/cov, runs N generated plans of every claimed
# property in-process (--det: no forked workers, the profile is written at exit) for both tiers' generators, and prints llvm-cov's
# per-file summary plus the never-executed lines of the files the properties are anchored in. A measuring instrument, not a check.
set -u
ROOT="$(cd "$(dirname "${BASH_SOURCE[0]}")/.." && pwd)"; N="${1:-4000}"; B="$ROOT/build/cov"
make -s -C "$ROOT" -j16 PLAIN=1 BUILD="$B" EXTRA_DEFS="-fprofile-instr-generate -fcoverage-mapping" EXTRA_LDFLAGS="-fprofile-instr-generate" all > "$B.make.log" 2>&1 || { tail "$B.make.log"; exit 2; }
rm -f "$B"/*.profraw
harness_of() { case "$1" in C01|C02|C03|C04|C05) echo regsim;; C06|C07|C08|C09) echo regpsim;; C10|C11) echo pssim;; C12) echo slipsim;; C13) echo lenpsim;; C17) echo epsim;; C18) echo bbsim;; C19) echo rbsim;; esac; }
for id in C01 C02 C03 C04 C05 C06 C07 C08 C09 C10 C11 C12 C13 C17 C18 C19; do
    n=$N; [ "$id" = C07 ] && n=$((N/20))
    for tier in quick thorough; do
        LLVM_PROFILE_FILE="$B/$id.$tier.profraw" "$B/bin/$(harness_of $id)" --prop "$id" --tier "$tier" --det "$n" > /dev/null 2>&1 &
    done
done; wait
llvm-profdata-14 merge -sparse "$B"/*.profraw -o "$B/all.profdata" || exit 2
OBJS=("$B/bin/regsim"); for h in regpsim pssim slipsim lenpsim epsim bbsim rbsim; do OBJS+=(-object "$B/bin/$h"); done
SRC=$(ls /repo/src/registers/core.c /repo/src/register-protocol.c /repo/src/persistent-storage.c /repo/src/rfc1055.c /repo/src/length-prefix.c /repo/src/endpoints/core.c /repo/src/endpoints/buffer.c /repo/src/endpoints/trivial.c /repo/src/endpoints/continuable-sink.c /repo/src/byte-buffer.c /repo/src/ring-buffer-iter.c /repo/src/octet-ring.c /repo/src/crc-16-arc.c /repo/src/variable-length-integer.c /repo/src/allocator.c)
llvm-cov-14 report "${OBJS[@]}" -instr-profile="$B/all.profdata" $SRC 2>/dev/null
echo; echo "never-executed lines (library files the properties are anchored in):"
llvm-cov-14 show "${OBJS[@]}" -instr-profile="$B/all.profdata" $SRC -show-line-counts-or-regions=false 2>/dev/null | awk '/^\/repo\// { f=$0 } /^ +[0-9]+\| +0\|/ { print f " " $0 }' | sed 's/:$//' 
