#!/bin/bash
# print the sorted set of violation tags a check reports (helper for attributing fixes)
./check "$@" --no-evidence --replay-dir /verif/build/replays-tmp --shrink-budget 0 2>&1 | grep -oE "(tag=|violation tag )C[0-9]+:[^ ]+" | sed 's/.*C/C/' | sort -u
