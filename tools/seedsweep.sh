#!/bin/bash
# tools/seedsweep.sh [tier] seed...   - run every claimed check for each VERIF_SEED; any exit != 0 is reported (no evidence written)
ROOT="$(cd "$(dirname "$0")/.." && pwd)"; cd "$ROOT" || exit 2
TIER="${1:-quick}"; shift
BAD=0
for seed in "$@"; do
  for id in C01 C02 C03 C04 C05 C06 C07 C08 C09 C10 C11 C12 C13 C17 C18 C19; do
    out="$(VERIF_SEED=$seed ./check $id --tier $TIER --no-evidence --replay-dir "$ROOT/build/sweep-replays" 2>&1)"; rc=$?
    line="$(echo "$out" | grep '^sim: [0-9]' | tail -1)"
    if [ $rc -ne 0 ]; then BAD=1; echo "seed $seed $id EXIT $rc"; echo "$out" | grep -E "^violation|VIOLATION|HARNESS" | head -5; else echo "seed $seed $id ok  ${line#sim: }"; fi
  done
done
exit $BAD
