#!/usr/bin/env python3
"""Generate /verif/MANIFEST.json from the table below (single source of truth)."""
import json, os
ROOT = os.path.dirname(os.path.dirname(os.path.abspath(__file__)))

CHECKS = {
 # id: (harness, level, technique, level text, level note, design ref)
 "C17": ("epsim", "exploration",
         "deterministic simulation: seeded driver-behaviour scripts (partial/zero/EINTR/EAGAIN/hard) on scripted source and sink stubs, stream-cursor reference model",
         "Seeded exploration of endpoint API calls on one shared stream with per-call fault scripts on both drivers; every call is checked against a two-cursor stream model (exact count, order, no loss/duplication, error provenance, prefix rule, step budget). Sampling, not proof; the property's exhaustive script enumeration is not claimed.",
         "Trusts the scripted driver stubs and the stream model in sim/epsim.cpp; the getbuffer extension is simulated on the source side (lending sources); the sink side has no implementer and cannot have one (DESIGN.md section 8).", "4.1"),
 "C01": ("regsim", "exploration",
         "deterministic simulation: seeded register-table histories (typed set/get with boundary values, bad handles, all float classes) over generated tables with memory- and callback-backed areas; storage observed at the RegisterArea seam against a byte-wise reference model",
         "Partial claim. Every typed operation of a seeded history is checked for refinement against an independent register model (acceptance, refusal class, backing words in table byte order, bit-identical read-back, nothing changed and no callback write on refusal, 'no such entry' for every bad handle incl. one-past-the-end). The exhaustive 16-bit value enumeration of the quantifier is not claimed.",
         "Trusts the register model in sim/regmodel.hpp (encodings written byte-wise, not via bf_*), callback area stubs and harness validator rules.", "4.7"),
 "C02": ("regsim", "exploration",
         "deterministic simulation: seeded block-write histories over evolving table contents (adversarial overlays of boundary / violating / non-finite encodings on current content, out-of-band corruption), whole-image before/after comparison, caller-buffer and area guards under ASan",
         "Every block write is judged against the model: success exactly when mapped, writable and every overlapped register decodes and validates after overlay; exactly n words change and overlapped registers become touched; on failure nothing changes and (class, first address of that class inside the request) must be applicable.",
         "Trusts sim/regmodel.hpp; failure-class precedence is not fixed (any applicable class accepted).", "4.7"),
 "C03": ("regsim", "exploration",
         "deterministic simulation: seeded block reads into exact-size buffers and range iterations with scripted callbacks over generated tables (readable / write-only / callback areas), contents evolved by out-of-band writes",
         "Partial claim. Each read is checked (success iff all mapped, stored words or zero for non-readable areas, first unmapped address, zero-length, nothing outside the n words) and each iteration's visit sequence, stop rule and failure address are compared with the flat address-space model.",
         "Trusts sim/regmodel.hpp; window positions are sampled, not enumerated.", "4.7"),
 "C04": ("regsim", "exploration",
         "deterministic simulation: seeded table descriptions perturbed by at most one defect, register_init and restart (re-initialisation over surviving callback storage) as history operations, post-init state and uninitialised-reporting checks",
         "Partial claim. Initialisation verdict (rule and index) is compared with a well-formedness reference; after success default loading, zeroed memory areas, surviving callback storage and per-area register runs are checked; after failure every operation kind must report 'uninitialised'. The systematic layout grid is not claimed.",
         "Trusts the well-formedness reference in sim/regmodel.hpp; where rule order and register order disagree about 'first', both are accepted.", "4.7"),
 "C05": ("regsim", "exploration",
         "deterministic simulation: seeded mixed histories of checked operations (set, bit set/clear, block write, sanitise) with out-of-band storage corruption as injected fault; inductive constraint invariant evaluated on the real storage before/after every step",
         "After every checked operation: a register that satisfied its constraint before still does, always-fail registers are unchanged, refused operations leave the whole image unchanged, bit operations change exactly the requested bits; after corruption + sanitise violating/undecodable registers hold their default, others are unchanged, no register is touched.",
         "Trusts sim/regmodel.hpp. Sanitise judged only on tables the property names (no always-fail registers, valid defaults, writable areas).", "4.7"),
 "C06": ("regpsim", "exploration",
         "deterministic simulation: client and server RegP nodes on two simulated wires, scripted-verdict memory backend (all 12 codes) and ledger allocator; the order of send/serve operations is the seeded schedule (pipelining); reference decoder/encoder written from doc/regp.txt; exactly-once history oracle",
         "Every served frame of a seeded session is judged: exactly one backend access with the request's address, block size and payload, exactly one reply octet-identical to the reference encoding of the prescribed response (echoed sequence number and address, ACK payload = backend image, error code with big-endian payload where the document gives one, WORD-SIZE-16 cleared), EWORDSIZE without access on mismatch, responses/meta ignored, nothing executed for frames that failed reception; both transports and word sizes.",
         "Trusts the reference codec in sim/regpref.hpp (packed checksum reading, header CRC continuing over the payload-CRC word) and the backend/allocator stubs.", "4.8"),
 "C07": ("regpsim", "fault_enumeration",
         "deterministic simulation with fault enumeration: per seeded serial frame the whole corruption catalogue (single/double bit flips, bursts 2..16 in line order, first-header-word flips, truncations, extensions) is injected on the simulated line; plus a differential family of arbitrary octet sequences on both transports against the reference classifier",
         "Per generated frame the catalogue is enumerated; each corrupted delivery must cause no backend access, no ACK, the error id and reply the reference classifier prescribes. The frame dimension and burst interior patterns are sampled. One recorded known finding (bursts straddling a checksum word, protocol layout).",
         "Trusts sim/regpref.hpp; corruption is applied to frame octets before SLIP (wire-level damage is C12).", "4.8"),
 "C08": ("regpsim", "exploration",
         "deterministic simulation: every emit entry point on both transports and word sizes with a wire tap compared octet-for-octet against the reference encoder, then delivered to a peer node's receiver whose reported fields are compared with the intended ones; session sequence numbers across wrap-around",
         "Seeded exploration of emitters x transports x memory word sizes x addresses/sizes/payloads (SLIP control octets, varint boundaries) x sequence start values; wire image and peer acceptance checked per frame.",
         "Trusts sim/regpref.hpp.", "4.8"),
 "C09": ("regpsim", "exploration",
         "deterministic simulation: streams of framed segments with arbitrary content (valid, mutated, random, oversize, short, empty) under allocation-failure scripts, block sizes from sizeof(RPFrame)+1, channel errors mid-frame and truncated TCP frames; allocator ledger, ASan exact-size blocks, backend capacity probe, outcome rules",
         "The documented loop recv; process; free is run over seeded streams with faults: every block released exactly once (also on channel errors), no access outside the block (ASan), backend never handed less room than the block it must fill, ERXOVERFLOW/ETXOVERFLOW/EBUSY/header-encoding outcomes as prescribed, step budget against hangs.",
         "Trusts sim/regpref.hpp and the ledger; latitude for reads that fit the buffer size but not the block behind the header, for non-request early errors, and for blocks too small to hold a header.", "4.8"),
 "C10": ("pssim", "exploration",
         "deterministic simulation: persistent storage over a simulated medium (access log, region guard, bit rot), image + independent checksum reference model",
         "Seeded exploration of configurations (data size, placement, three checksum algorithms, auxiliary buffer sizes 0..N+1) x operation histories (store, partial store incl. overflow pairs, fetch, validate, reset, restart, bit rot) on a fault-free medium; every medium access is logged and region-checked, every result compared with an image model and independently computed checksums; step budget catches non-terminating chunk loops.",
         "Trusts the medium stub and the independent checksum implementations in sim/pssim.cpp.", "4.6"),
 "C11": ("pssim", "fault_enumeration",
         "deterministic simulation with fault enumeration: for each seeded (configuration, history, operation) every crash point, every tear offset of every write and every single failing/short medium call is injected; only the medium survives a crash",
         "Per generated case the fault dimension is enumerated completely (all write-call prefixes, octet-granular tearing of each write, each call index x {fail, short by each amount}); after each crash a fresh instance validates and the oracle demands 'validates iff checksum on the medium matches data on the medium' and old-or-new at write boundaries; failing/short calls must surface as I/O error. Cases are sampled.",
         "Trusts the medium stub (longjmp out of the library models power loss; the library holds no other resource) and the independent checksums.", "4.6"),
 "C12": ("slipsim", "exploration",
         "deterministic simulation: SLIP encoder/decoder on a scripted serial line with garbage prefixes, damaged frames, partial sink transfers and driver errors at chosen octet positions; suffix-rule resynchronisation oracle, reference decoder in classic mode",
         "Seeded exploration of payloads (5-symbol alphabet and full alphabet), frame sequences, corrupted prefixes and line faults in both modes with octet- and chunk-style drivers; transparency, delimiter form, length bound, concatenation, resynchronisation (suffix rule), EILSEQ, no-expansion and error pass-through are checked per decode call.",
         "Trusts the line/sink stubs and the reference state machine in sim/slipsim.cpp; zero-return/EINTR drivers belong to C17.", "4.4"),
 "C13": ("lenpsim", "exploration",
         "deterministic simulation: all 8 encoder and 3 decoder entry points over fragmenting source stubs and scripted/failing sink stubs, reference prefix encoder, exact-size guarded destinations",
         "Seeded exploration of prefix kinds x lengths (incl. varint and kind-maximum boundaries) x buffer states (offset>0, used<size) x chunk lists (empty chunks, active>0) x destination capacities x source fragmentation scripts x sink behaviour/error scripts; emitted octets, totals, buffer advancement, refusal before emission, append semantics, -ENOMEM without writes and multi-frame streams are checked.",
         "Trusts the reference prefix encoder and stubs in sim/lenpsim.cpp; lengths > 65536 only on the refusal path.", "4.5"),
 "C18": ("bbsim", "exploration",
         "deterministic simulation: seeded interleaving of producer/consumer/housekeeper tasks on one buffer, list reference model + FIFO history oracle",
         "Weak claim: the byte buffer has no seam or fault; the simulator contributes seeded call interleavings of three tasks, a step-by-step list model and the FIFO/conservation history check on exact-size ASan blocks. Reports reached (size,used,offset) states.",
         "Trusts the list model in sim/bbsim.cpp. The property's explicit-state enumeration is not claimed.", "4.2"),
 "C19": ("rbsim", "exploration",
         "deterministic simulation: seeded interleaving of producer/consumer/admin/observer tasks on one ring (octet_ring and macro instantiations for four more element types), deque reference model + exactly-once FIFO history oracle, both iterators run to completion",
         "Weak claim: the ring buffer has no seam or fault; the simulator contributes seeded call interleavings, a deque model with capacity/override semantics, iterator checks after every mutation and the exactly-once in-order history check. Reports reached (capacity, head, tail, override, size) states.",
         "Trusts the deque model in sim/rbsim.cpp. The property's explicit-state model checking is not claimed.", "4.3"),
}

NA = {
 "C14": "pure codec (value -> octets -> value): no state between calls, no seam behaviour in the statement; deciding it is input-space enumeration, not simulation (DESIGN.md 4.9)",
 "C15": "header-only pure functions of (value, width, order, alignment): nothing to schedule, delay or fail (DESIGN.md 4.9)",
 "C16": "pure function of (state, octets); an independent bitwise CRC is only used as oracle inside other harnesses (DESIGN.md 4.9)",
 "C20": "pure function of the input text; allocation failure ends in _Exit(1) by design, so there is no fault path to inject and no stream/state/peer (DESIGN.md 4.9)",
}
PENDING = {}  # id -> reason, for properties whose harness is not built yet

def main():
    checks = []
    for pid in sorted(CHECKS):
        h, level, tech, text, note, ref = CHECKS[pid]
        checks.append({
            "property_id": pid,
            "quick_cmd": "./check %s --tier quick" % pid,
            "thorough_cmd": "./check %s --tier thorough" % pid,
            "evidence_file": "/verif/evidence/%s.json" % pid,
            "replay_cmd_template": "./check %s --replay {path}" % pid,
            "engine": h,
            "level_claimed": {"category": level, "text": text, "design_ref": "DESIGN.md section " + ref},
            "level_note": note,
            "technique": tech,
        })
    engines = {}
    for pid, v in CHECKS.items(): engines.setdefault(v[0], []).append(pid)
    m = {
        "version": 1,
        "setup_cmd": "make -C /verif -j16 setup",
        "hooks": {
            "guard": "FT_UFW_VERIF",
            "enable": "harness builds compile the library sources of /repo with -DFT_UFW_VERIF (Makefile GUARD); no hook had to be added to /repo, all seams already exist",
            "baseline_off_cmd": "/verif/tools/baseline.sh /repo",
            "source_commits": [],
            "add_only": True,
        },
        "engines": [{"name": h, "path": "/verif/sim/%s.cpp" % h, "serves_properties": sorted(p),
                     "kind_free_text": "deterministic simulator harness (C++17, ASan+UBSan) over the real library sources; plans = explicit JSON op lists with attached faults; seeded generation; ddmin minimisation; replay by plan file"}
                    for h, p in sorted(engines.items())],
        "checks": checks,
        "not_applicable": [{"property_id": k, "reason": v} for k, v in sorted({**NA, **PENDING}.items())],
        "notes": "One technique family: deterministic simulation with fault injection. ./check <id> rebuilds incrementally from /repo's working tree, in two builds (assertions compiled in; -DNDEBUG release-build twin, a fifth of the runs) and runs both. Exit 0 held, 1 VIOLATION line, 2 harness error. known-findings.json lists recorded/fixed defects.",
    }
    json.dump(m, open(os.path.join(ROOT, "MANIFEST.json"), "w"), indent=1)
    open(os.path.join(ROOT, "MANIFEST.json"), "a").write("\n")
main()
