#!/bin/bash
# ./check selftest determinism [ids...]      - every harness: runs executed twice in-process, in 3 processes, and batches at 1/4/16 workers must agree
# ./check selftest sensitivity [names...]    - every mutants/*.patch: scratch copy of /repo, patched, quick check must report a VIOLATION
# ./check selftest seeded [names...]         - the same for seeded/<name>/patch.diff (changes contributed by independent sub-agents)
# ./check selftest baseline [names...]       - (slow) each mutant / seeded change still passes the repository's own test suite
# ./check selftest valgrind [ids...]         - plain (unsanitised) harness binaries under valgrind memcheck over a few hundred plans
set -u
ROOT="$(cd "$(dirname "${BASH_SOURCE[0]}")/.." && pwd)"
cd "$ROOT" || exit 2
MODE="${1:-}"; shift || true
ALL_IDS="C01 C02 C03 C04 C05 C06 C07 C08 C09 C10 C11 C12 C13 C17 C18 C19"
harness_of() { case "$1" in C01|C02|C03|C04|C05) echo regsim;; C06|C07|C08|C09) echo regpsim;; C10|C11) echo pssim;; C12) echo slipsim;; C13) echo lenpsim;; C17) echo epsim;; C18) echo bbsim;; C19) echo rbsim;; esac; }

case "$MODE" in
determinism)
    IDS="${*:-$ALL_IDS}"; N="${DET_N:-1500}"; BAD=0
    make -s -C "$ROOT" -j16 setup > /dev/null || exit 2
    T="$(mktemp -d "$ROOT/build/det.XXXXXX")"
    for id in $IDS; do for V in "" nd/; do   # both builds: assertions compiled in, and the release-build twin
        B="$ROOT/build/main/${V}bin/$(harness_of "$id")"
        n=$N; [ "$id" = C07 ] && n=$((N/10)); [ -n "$V" ] && n=$((n/3))
        for k in 1 2 3; do "$B" --prop "$id" --det "$n" > "$T/$id.$k" 2>/dev/null & done; wait
        if ! cmp -s "$T/$id.1" "$T/$id.2" || ! cmp -s "$T/$id.1" "$T/$id.3"; then echo "DETERMINISM FAIL $id: processes disagree"; BAD=1; fi
        if awk '$3 != $4 || $5 != $6 { exit 1 }' "$T/$id.1"; then :; else echo "DETERMINISM FAIL $id: two in-process executions of one plan differ"; BAD=1; fi
        for w in 1 4 16; do "$B" --prop "$id" --runs "$n" --jobs "$w" --no-evidence --replay-dir "$T/r" 2>/dev/null | grep '^sim: [0-9]' | sed 's/, [0-9.]*s;/;/' > "$T/$id.w$w"; done
        if ! cmp -s "$T/$id.w1" "$T/$id.w4" || ! cmp -s "$T/$id.w1" "$T/$id.w16"; then echo "DETERMINISM FAIL $id: batches with 1/4/16 workers disagree"; cat "$T/$id".w*; BAD=1; fi
        echo "determinism $id ${V:+(ndebug build) }: $n plans x (2 in-process + 3 processes) identical; batches at 1/4/16 workers identical: $(cat "$T/$id.w1")"
    done; done
    rm -rf "$T"; exit $BAD ;;
sensitivity|seeded|baseline)
    make -s -C "$ROOT" -j16 setup > /dev/null || exit 2
    LIST=()
    if [ "$MODE" != seeded ]; then for f in "$ROOT"/mutants/*.patch; do [ -f "$f" ] && LIST+=("$f"); done; fi
    if [ "$MODE" != sensitivity ]; then for f in "$ROOT"/seeded/*/patch.diff; do [ -f "$f" ] && LIST+=("$f"); done; fi
    MISSED=0; TOTAL=0
    for f in "${LIST[@]}"; do
        extra="--tier quick"   # a seeded change may name the tier that is able to see it (meta.json: "check_args")
        case "$f" in */seeded/*) name="$(basename "$(dirname "$f")")"; id="$(python3 -c "import json,sys; print(json.load(open(sys.argv[1]))['property'])" "$(dirname "$f")/meta.json")"
                                 extra="$(python3 -c "import json,sys; print(json.load(open(sys.argv[1])).get('check_args','--tier quick'))" "$(dirname "$f")/meta.json")"
                                 id="$(python3 -c "import json,sys; m=json.load(open(sys.argv[1])); print(m.get('check_property', m['property']))" "$(dirname "$f")/meta.json")" ;;
                     *) name="$(basename "$f" .patch)"; id="${name%%-*}" ;; esac
        if [ $# -gt 0 ]; then hit=0; for want in "$@"; do case "$name" in *"$want"*) hit=1;; esac; done; [ $hit = 1 ] || continue; fi
        TOTAL=$((TOTAL+1))
        SCR="$(mktemp -d /var/tmp/ufw-mut.XXXXXX)"
        rsync -a --exclude _build --exclude .git /repo/ "$SCR/"
        if ! patch -s -p1 -d "$SCR" < "$f"; then echo "selftest: $name: patch does not apply"; rm -rf "$SCR"; MISSED=$((MISSED+1)); continue; fi
        if [ "$MODE" = baseline ]; then
            if BASELINE_TIMEOUT=120 "$ROOT/tools/baseline.sh" "$SCR" > "$SCR.log" 2>&1; then echo "baseline ok   $name"; else echo "baseline FAIL $name"; tail -3 "$SCR.log"; MISSED=$((MISSED+1)); fi
            rm -rf "$SCR" "$SCR.log"; continue
        fi
        ALT="$ROOT/build/alt-mut.$$"; rm -rf "$ALT"; rsync -a "$ROOT/build/main/" "$ALT/"
        out="$(UFW_SRC="$SCR" VERIF_BUILD="$ALT" "$ROOT/check" "$id" $extra --no-evidence --stop-early --shrink-budget 150 --replay-dir "$ALT/replays" 2>&1)"; rc=$?
        tags="$(echo "$out" | grep -oE 'tag=C[0-9]+:[^ ]+' | sort -u | tr '\n' ' ')"
        if [ $rc -eq 1 ]; then echo "caught  $id $name  [$tags]"; else echo "MISSED  $id $name (exit $rc)"; echo "$out" | tail -3; MISSED=$((MISSED+1)); fi
        rm -rf "$SCR" "$ALT" "$ALT.make.log"
    done
    echo "selftest $MODE: $((TOTAL-MISSED)) of $TOTAL ok"
    [ $MISSED -eq 0 ] ;;
valgrind)
    # uninitialised-value and addressing errors that ASan with pattern-initialised locals cannot see: plain binaries under valgrind
    IDS="${*:-$ALL_IDS}"; N="${VG_N:-150}"; BAD=0
    make -s -C "$ROOT" -j16 PLAIN=1 BUILD="$ROOT/build/plain" setup > "$ROOT/build/plain.make.log" 2>&1 || { tail -5 "$ROOT/build/plain.make.log"; exit 2; }
    for id in $IDS; do
        B="$ROOT/build/plain/bin/$(harness_of "$id")"
        n=$N; [ "$id" = C07 ] && n=$((N/10)); [ "$id" = C11 ] && n=$((N/3))
        if valgrind -q --error-exitcode=9 --track-origins=no "$B" --prop "$id" --det "$n" > /dev/null 2> "$ROOT/build/plain/vg.$id.log"; then echo "valgrind $id: $n plans clean"; else echo "valgrind FAIL $id"; head -20 "$ROOT/build/plain/vg.$id.log"; BAD=1; fi
    done
    exit $BAD ;;
*) sed -n 2,6p "$0"; exit 2 ;;
esac
