#!/usr/bin/env python3
"""Maintain /verif/known-findings.json (never written by checks at run time).
usage: kf.py add <status> <property> <commit|-> <tags,comma-separated> <what...>"""
import json, sys, os
P = os.path.join(os.path.dirname(os.path.dirname(os.path.abspath(__file__))), 'known-findings.json')
def load():
    try: return json.load(open(P))
    except Exception: return {"comment": "status 'known': genuine defect recorded, the check prints KNOWN-FINDING and does not fail for exactly this tag. status 'fixed': repaired by the given 'fix:' commit in /repo; suppresses nothing.", "findings": []}
def main():
    if sys.argv[1] == 'add':
        status, prop, commit, tags = sys.argv[2:6]
        what = ' '.join(sys.argv[6:])
        j = load()
        for t in tags.split(','):
            e = {"status": status, "property": prop, "tag": t, "what": what}
            if commit != '-': e["commit"] = commit
            if status == 'fixed': e["line"] = "fixed: property=%s %s %s" % (prop, commit, what)
            j["findings"] = [f for f in j["findings"] if not (f["property"] == prop and f["tag"] == t and f.get("commit", "-") == commit)]
            j["findings"].append(e)
        json.dump(j, open(P, 'w'), indent=1); open(P, 'a').write('\n')
main()
