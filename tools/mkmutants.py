#!/usr/bin/env python3
"""(Re)generate /verif/mutants/*.patch from the replacement table below, against /repo's working tree.
Each mutant is a small change to ft/ufw that still compiles and passes the 902 baseline tests but breaks the named property."""
import difflib, os, sys
REPO = '/repo'
OUT = os.path.join(os.path.dirname(os.path.dirname(os.path.abspath(__file__))), 'mutants')
M = [
 # (property, name, file, old, new)
 ("C11", "short-read-not-an-error", "src/persistent-storage.c", "        if (n != toget) {\n            return rv;\n        }\n\n        switch (store->checksum.type) {", "        if (n == 0u) {\n            return rv;\n        }\n\n        switch (store->checksum.type) {"),
 ("C11", "checksum-write-result-ignored", "src/persistent-storage.c", "    if (n != size) {\n        return PERSISTENT_ACCESS_IO_ERROR;\n    }\n\n    return PERSISTENT_ACCESS_SUCCESS;\n}\n\n/**\n * Retrieve checksum", "    if (n == 0u) {\n        return PERSISTENT_ACCESS_IO_ERROR;\n    }\n\n    return PERSISTENT_ACCESS_SUCCESS;\n}\n\n/**\n * Retrieve checksum"),
 ("C10", "partial-store-checksum-from-source", "src/persistent-storage.c", "    if ((offset == 0) && (n == store->data.size)) {", "    if (offset == 0) {"),
 ("C10", "reset-skips-last-chunk", "src/persistent-storage.c", "    return persistent_writen(store, store->data.address, item, store->data.size);", "    return persistent_writen(store, store->data.address, item,\n                             store->data.size - (store->data.size % store->buffer.size));"),
 ("C02", "no-taint-after-block-write", "src/registers/core.c", "    reg_taint_in_range(t, addr, n);\n    return rv;", "    return rv;"),
 ("C02", "register-at-last-word-not-validated", "src/registers/core.c", "        if (e->address > last) {\n            break;\n        }", "        if (e->address >= last) {\n            break;\n        }"),
 ("C01", "f64-min-exclusive", "src/registers/core.c", "        return (v.value.f64 >= limit.f64);", "        return (v.value.f64 > limit.f64);"),
 ("C05", "s64-max-exclusive-bypass", "src/registers/core.c", "        return (v.value.s64 <= limit.s64);", "        return (v.value.s64 <= limit.s64 || limit.s64 < 0);"),
 ("C05", "bit-clear-skips-validation", "src/registers/core.c", "    case REG_TYPE_INVALID:\n        goto invalid;\n    }\n    rv = register_set(t, idx, reg);\n    return rv;\n\ninvalid:\n    rv.code = REG_ACCESS_INVALID;\n    rv.address = idx;\n    return rv;\n}\n\nRegisterAccess\nregister_default", "    case REG_TYPE_INVALID:\n        goto invalid;\n    }\n    rv = register_set_unsafe(t, idx, reg);\n    return rv;\n\ninvalid:\n    rv.code = REG_ACCESS_INVALID;\n    rv.address = idx;\n    return rv;\n}\n\nRegisterAccess\nregister_default"),
 ("C03", "read-chunk-ignores-start-offset-in-area", "src/registers/core.c", "        readn = reg_min(a->base + a->size - addr, rest);", "        readn = reg_min(a->size, rest);"),
 ("C03", "read-unreadable-area-not-zeroed-at-area-start", "src/registers/core.c", "        if (register_area_is_readable(a)) {\n            rv = a->read(a, buf, offset, readn);", "        if (register_area_is_readable(a) || offset == 0u) {\n            rv = a->read(a, buf, offset, readn);"),
 ("C04", "empty-area-records-one-register", "src/registers/core.c", "            a->entry.first = a->entry.last = a->entry.count = 0;", "            a->entry.first = a->entry.last = 0;\n            a->entry.count = (entry < t->entries) ? 1 : 0;"),
 ("C04", "skip-defaults-area-not-cleared", "src/registers/core.c", "        if (t->area[i].mem != NULL) {\n            memset(t->area[i].mem, 0, t->area[i].size * sizeof(RegisterAtom));", "        if (t->area[i].mem != NULL\n            && BIT_ISSET(t->area[i].flags, REG_AF_SKIP_DEFAULTS) == false) {\n            memset(t->area[i].mem, 0, t->area[i].size * sizeof(RegisterAtom));"),
 ("C04", "area-checks-against-first-area-only", "src/registers/core.c", "            return rv;\n        }\n        previous = current;\n    }\n\n    previous = t->entry[0].address;", "            return rv;\n        }\n    }\n\n    previous = t->entry[0].address;"),
 ("C12", "esc-followed-by-end-does-not-resync", "src/rfc1055.c", "                    ctx->state = (data == RAW_EOF)\n                        ? RFC1055_NORMAL\n                        : RFC1055_SEARCH_FOR_END;", "                    ctx->state = RFC1055_SEARCH_FOR_END;"),
 ("C12", "source-error-after-esc-reported-as-illegal-sequence", "src/rfc1055.c", "        MAYBE_RETURN(source_get_octet(source, &second));", "        if (source_get_octet(source, &second) < 0) {\n            return -EILSEQ;\n        }"),
 ("C13", "chunks-to-sink-ignores-active", "src/length-prefix.c", "    for (size_t i = oc->active; i < oc->chunks; ++i) {\n        const size_t n = byte_buffer_rest(oc->chunk + i);\n        if (n == 0u) {", "    for (size_t i = 0u; i < oc->chunks; ++i) {\n        const size_t n = byte_buffer_rest(oc->chunk + i);\n        if (n == 0u) {"),
 ("C13", "from-source-capacity-off-by-one", "src/length-prefix.c", "    if (len > size) {\n        return -ENOMEM;\n    }", "    if (len > size + 1u) {\n        return -ENOMEM;\n    }"),
 ("C08", "write8-does-not-advance-sequence", "src/register-protocol.c", "                      address, n, plcrc);\n    p->session.sequence++;\n    return send_memory(p, header, size, (void*)buf, n * sizeof(*buf));\n}\n#endif /* WITH_UINT8_T */", "                      address, n, plcrc);\n    return send_memory(p, header, size, (void*)buf, n * sizeof(*buf));\n}\n#endif /* WITH_UINT8_T */"),
 ("C08", "erange-response-keeps-word-size-bit", "src/register-protocol.c", "    return send_resp_32(p, f, RP_RESP_ERANGE, address, MSEM_8BIT);", "    return send_resp_32(p, f, RP_RESP_ERANGE, address, MSEM_AUTO);"),
 ("C06", "no-word-size-check", "src/register-protocol.c", "    if (memtype_valid(p, mf->frame) == false) {", "    if (memtype_valid(p, mf->frame) == false && mf->frame->header.blocksize > 0u) {"),
 ("C06", "eaccess-reports-request-address", "src/register-protocol.c", "        return regp_resp_eaccess(p, mf->frame, ba.address);", "        return regp_resp_eaccess(p, mf->frame, addr);"),
 ("C06", "register-range-verdict-mapped-to-einvalid", "include/ufw/register-protocol.h", "    case REG_ACCESS_RANGE:         rc.status = RP_RESP_ERANGE;    break;", "    case REG_ACCESS_RANGE:         rc.status = RP_RESP_EINVALID;  break;"),
 ("C07", "header-crc-ignored-for-16bit-frames", "src/register-protocol.c", "    return (crc == frame->header.hdcrc) ? (int)offset : -EILSEQ;", "    return (crc == frame->header.hdcrc || (frame->header.options & 1u) != 0u)\n        ? (int)offset : -EILSEQ;"),
 ("C07", "payload-crc-skipped-for-single-word", "src/register-protocol.c", "    if (regp_has_plcrc(f) == false) {\n        return 0;\n    }", "    if (regp_has_plcrc(f) == false || f->header.blocksize == 1u) {\n        return 0;\n    }"),
 ("C09", "channel-error-leaks-block-on-tcp", "src/register-protocol.c", "        if (rc < 0) {\n            /* Nothing is handed to the caller, so nobody else can free. */\n            regp_free(p, (RPFrame*)cs.buffer.data);\n            return rc;\n       }", "        if (rc < 0) {\n            return rc;\n       }"),
 ("C09", "read-limit-ignores-header-again", "src/register-protocol.c", "        const size_t room = p->alloc->blocksize\n            - (size_t)((unsigned char*)buf - (unsigned char*)mf->frame);", "        const size_t room = p->alloc->blocksize - sizeof(RPFrame);"),
 ("C17", "sink-eagain-not-retried", "src/endpoints/core.c", "        if (put == -EINTR || put == -EAGAIN) {", "        if (put == -EINTR) {"),
 ("C17", "atmost-aux-clamp-off-by-one", "src/endpoints/core.c", "        buffer.used = buffer.offset + n;", "        buffer.used = buffer.offset + n + 1u;"),
 ("C18", "clear-zeroes-only-the-filled-part", "src/byte-buffer.c", "    b->offset = b->used = 0u;\n    memset(b->data, 0, b->size);", "    memset(b->data, 0, b->used);\n    b->offset = b->used = 0u;"),
 ("C18", "add-accepts-one-octet-too-many", "src/byte-buffer.c", "    if (size > (b->size - b->used)) {", "    if (size > (b->size - b->used) + 1u) {"),
 ("C19", "old-to-new-iterator-wraps-one-late", "src/ring-buffer-iter.c", "        iter->index = (iter->index + 1) % iter->size;", "        iter->index = (iter->index + 1) % (iter->size + 1);"),
 ("C19", "iterator-new-to-old-starts-at-head", "include/ufw/ring-buffer-iter.h", "                (c->head == 0) ? c->datasize - 1 : c->head - 1; \\", "                (c->head == 0) ? c->datasize - 1 : c->head;     \\"),
]
def main():
    os.makedirs(OUT, exist_ok=True)
    for f in os.listdir(OUT):
        if f.endswith('.patch'): os.remove(os.path.join(OUT, f))
    for prop, name, path, old, new in M:
        src = open(os.path.join(REPO, path)).read()
        if src.count(old) != 1:
            print("SKIP %s-%s: anchor occurs %d times" % (prop, name, src.count(old))); continue
        dst = src.replace(old, new)
        d = ''.join(difflib.unified_diff(src.splitlines(True), dst.splitlines(True), 'a/' + path, 'b/' + path))
        open(os.path.join(OUT, '%s-%s.patch' % (prop, name)), 'w').write(d)
    print(len([f for f in os.listdir(OUT) if f.endswith('.patch')]), "mutants written")
main()
