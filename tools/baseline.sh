#!/bin/bash
# Build ft/ufw (guard FT_UFW_VERIF off) in a scratch directory outside /repo and
# /verif, run the repository's own test suite and compare the passing test
# names with /root/.vp/BASELINE.json. The scratch directory is removed.
# usage: tools/baseline.sh [source tree, default /repo]
set -u
SRC="${1:-/repo}"
B="$(mktemp -d /var/tmp/ufw-baseline.XXXXXX)"
trap 'rm -rf "$B"' EXIT
if ! cmake -G Ninja -S "$SRC" -B "$B" > "$B/configure.log" 2>&1; then cat "$B/configure.log"; echo "baseline: configure failed"; exit 2; fi
if ! cmake --build "$B" > "$B/build.log" 2>&1; then tail -50 "$B/build.log"; echo "baseline: build failed"; exit 2; fi
ctest --test-dir "$B" -j8 --timeout ${BASELINE_TIMEOUT:-900} > "$B/ctest.log" 2>&1
CT=$?
tail -4 "$B/ctest.log"
# per-subtest comparison with the pinned baseline
: > "$B/tap.log"
for t in "$B"/test/t-*; do [ -x "$t" ] && [ -f "$t" ] && timeout 120 "$t" >> "$B/tap.log" 2>&1; done
python3 - "$B/tap.log" <<'PY'
import json, re, sys
tap = open(sys.argv[1], errors='replace').read().splitlines()
ok = set(); notok = []
for l in tap:
    m = re.match(r'^(not ok|ok)\s+\d+\s*-?\s*(.*)$', l)
    if not m: continue
    name = m.group(2).strip()
    if m.group(1) == 'ok': ok.add(name)
    else: notok.append(name)
try:
    base = json.load(open('/root/.vp/BASELINE.json'))['stable_pass']
    base = set(n.split('::', 1)[1] for n in base)
except Exception as e:
    base = None
print("baseline: %d distinct passing subtests, %d failing" % (len(ok), len(notok)))
rc = 0
if notok:
    print("baseline: FAILING:", notok[:10]); rc = 1
if base is not None:
    missing = sorted(base - ok)
    if missing:
        print("baseline: %d pinned tests no longer pass, e.g. %s" % (len(missing), missing[:5])); rc = 1
    else:
        print("baseline: all %d pinned tests pass" % len(base))
sys.exit(rc)
PY
PR=$?
[ $CT -ne 0 ] && { echo "baseline: ctest failed"; exit 1; }
exit $PR
